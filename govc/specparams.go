package main

// setParam binds a contract parameter name at a program point (loop
// invariant, call-site clause). Unlike quantifier-bound names it has LOWER
// priority than the program's own variables at that point: a parameter that
// the function reassigns (slice = slice[n:]) means its current value there.
func (e *specEnv) setParam(name string, v Val) {
	if e.params == nil {
		e.params = map[string]Val{}
	}
	e.params[name] = v
}
