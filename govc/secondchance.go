package main

// secondChance re-runs, one at a time and with four times the timeout, every
// proof obligation whose first answer was neither unsat nor a definite sat
// (timeout / unknown / solver error). Solver time depends on machine load; an
// obligation that discharges when it has the machine to itself must not be
// reported as failing. Probes (Expect == "sat") are left alone.
func secondChance(c *Ctx, obls []*Obligation, opts solveOpts) int {
	n := 0
	for _, o := range obls {
		if o.Expect == "sat" || o.Result == "unsat" || o.Result == "sat" {
			continue
		}
		o2 := opts
		o2.timeoutS = opts.timeoutS * 4
		o2.jobs = 1
		prev := o.Time
		c.solve(o, o2)
		o.Time += prev
		n++
	}
	return n
}
