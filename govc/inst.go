package main

// Own quantifier handling (DESIGN §2.6): the negated obligation is put into
// negation normal form, existentials are skolemised, universals are
// instantiated at the relevant ground terms of the problem, and a
// quantifier-free query is produced.  Dropping the remaining universals only
// weakens the hypotheses, so `unsat` of the instantiated query is a proof;
// `sat` of it means nothing and is never reported.

import (
	"fmt"
	"sort"
	"strings"
)

type instCtx struct {
	nsk      int
	decls    []string
	grounds  map[string]*Term // ground candidate terms by printed form
	bySort   map[string][]*Term
	univ     []*Term // pending universals (prenex: forall xs. matrix)
	qf       []*Term // quantifier-free assertions
	seenInst map[string]bool
	budget   int
	shifts   int                // skolems whose +1/-1 neighbours were added as candidates
	depth    int                // >0 while processing instances
	arith    map[string][]*Term // candidates for variables that occur under arithmetic: skolems of the original assertions, loop counters, hints
}

func containsQuant(t *Term) bool {
	if t.Bound != nil {
		return true
	}
	for _, a := range t.Args {
		if containsQuant(a) {
			return true
		}
	}
	return false
}

// nnf pushes negations inward through the boolean structure. Quantifiers
// nested below non-boolean structure are left alone.
func nnf(t *Term, pos bool) *Term {
	if !containsQuant(t) {
		if pos {
			return t
		}
		return Not(t)
	}
	switch {
	case t.Bound != nil:
		op := t.Op
		if !pos {
			if op == "forall" {
				op = "exists"
			} else {
				op = "forall"
			}
		}
		return &Term{Op: op, Bound: t.Bound, Args: []*Term{nnf(t.Args[0], pos)}, Sort: BoolSort}
	case t.Op == "not" && len(t.Args) == 1:
		return nnf(t.Args[0], !pos)
	case t.Op == "and" || t.Op == "or":
		op := t.Op
		if !pos {
			if op == "and" {
				op = "or"
			} else {
				op = "and"
			}
		}
		var as []*Term
		for _, a := range t.Args {
			as = append(as, nnf(a, pos))
		}
		if op == "and" {
			return And(as...)
		}
		return Or(as...)
	case t.Op == "=>" && len(t.Args) == 2:
		if pos {
			return Or(nnf(t.Args[0], false), nnf(t.Args[1], true))
		}
		return And(nnf(t.Args[0], true), nnf(t.Args[1], false))
	case t.Op == "ite" && len(t.Args) == 3 && t.Sort == BoolSort:
		c := t.Args[0]
		if containsQuant(c) {
			break
		}
		return And(Or(Not(c), nnf(t.Args[1], pos)), Or(c, nnf(t.Args[2], pos)))
	case t.Op == "=" && len(t.Args) == 2 && t.Args[0].Sort == BoolSort:
		a, b := t.Args[0], t.Args[1]
		// a <=> b  ==  (a => b) and (b => a)
		if pos {
			return And(Or(nnf(a, false), nnf(b, true)), Or(nnf(b, false), nnf(a, true)))
		}
		return Or(And(nnf(a, true), nnf(b, false)), And(nnf(b, true), nnf(a, false)))
	}
	if pos {
		return t
	}
	return Not(t)
}

var renameCounter int

// prenex pulls quantifiers of an NNF formula to the front. Returns prefix
// (list of (isForall, var)) and matrix.
type qvar struct {
	forall bool
	v      *Term
}

func prenex(t *Term) ([]qvar, *Term) {
	if !containsQuant(t) {
		return nil, t
	}
	if t.Bound != nil {
		// rename bound vars to keep them unique
		m := map[string]*Term{}
		var pre []qvar
		for _, b := range t.Bound {
			renameCounter++
			nv := Var(fmt.Sprintf("%s~%d", strings.SplitN(b.Op, "~", 2)[0], renameCounter), b.Sort)
			m[b.Op] = nv
			pre = append(pre, qvar{t.Op == "forall", nv})
		}
		body := subst(t.Args[0], m)
		p2, mat := prenex(body)
		return append(pre, p2...), mat
	}
	if t.Op == "and" || t.Op == "or" {
		var pre []qvar
		var as []*Term
		for _, a := range t.Args {
			p, m := prenex(a)
			pre = append(pre, p...)
			as = append(as, m)
		}
		if t.Op == "and" {
			return pre, And(as...)
		}
		return pre, Or(as...)
	}
	return nil, t // quantifier below non-boolean structure: opaque
}

func (ic *instCtx) addArith(t *Term) {
	k := t.Sort.String()
	for _, o := range ic.arith[k] {
		if o.String() == t.String() {
			return
		}
	}
	ic.arith[k] = append(ic.arith[k], t)
}

func (ic *instCtx) addGround(t *Term) {
	if t.Sort == nil || t.Sort.Kind == SBool || t.Sort.Kind == SArray {
		return
	}
	if ic.depth > 1 {
		return
	}
	k := t.String()
	if _, ok := ic.grounds[k]; ok {
		return
	}
	if len(k) > 400 {
		return
	}
	ic.grounds[k] = t
	ic.bySort[t.Sort.String()] = append(ic.bySort[t.Sort.String()], t)
}

// collectIndexTerms gathers the ground terms used as array indices (and the
// arguments of uninterpreted functions) in t.
func (ic *instCtx) collectIndexTerms(t *Term, bound map[string]bool) {
	if t.Bound != nil {
		nb := map[string]bool{}
		for k := range bound {
			nb[k] = true
		}
		for _, b := range t.Bound {
			nb[b.Op] = true
		}
		ic.collectIndexTerms(t.Args[0], nb)
		return
	}
	switch t.Op {
	case "select":
		if isGround(t.Args[1], bound) {
			ic.addGround(t.Args[1])
		}
	case "store":
		if isGround(t.Args[1], bound) {
			ic.addGround(t.Args[1])
		}
	}
	for _, a := range t.Args {
		ic.collectIndexTerms(a, bound)
	}
}

func isGround(t *Term, bound map[string]bool) bool {
	if len(t.Args) == 0 && t.Bound == nil {
		return !bound[t.Op] && !strings.Contains(t.Op, "~") && !strings.Contains(t.Op, "!b") && !strings.HasSuffix(t.Op, "!q")
	}
	if t.Bound != nil {
		return false
	}
	for _, a := range t.Args {
		if !isGround(a, bound) {
			return false
		}
	}
	return true
}

// process adds an asserted formula.
func (ic *instCtx) process(f *Term) {
	if !containsQuant(f) {
		ic.qf = append(ic.qf, f)
		ic.collectIndexTerms(f, nil)
		return
	}
	n := nnf(f, true)
	// split top-level conjunctions first (keeps prefixes short)
	if n.Op == "and" && n.Bound == nil {
		for _, a := range n.Args {
			ic.process(a)
		}
		return
	}
	pre, mat := prenex(n)
	if len(pre) == 0 {
		// opaque quantifier somewhere: drop (weakening) only if the formula is
		// not needed; we keep soundness by dropping the whole conjunct
		return
	}
	// leading existentials become skolem constants
	m := map[string]*Term{}
	i := 0
	for ; i < len(pre) && !pre[i].forall; i++ {
		ic.nsk++
		name := fmt.Sprintf("sk!%d_%s", ic.nsk, smtIdent(strings.SplitN(pre[i].v.Op, "~", 2)[0]))
		sk := Var(name, pre[i].v.Sort)
		ic.decls = append(ic.decls, fmt.Sprintf("(declare-fun %s () %s)", name, pre[i].v.Sort))
		m[pre[i].v.Op] = sk
		if ic.depth <= 1 {
			// skolems of the original assertions and of first-level instances
			// (e.g. the witness of an inner exists) are candidates in the next round
			ic.addArith(sk)
			if ic.depth == 0 && sk.Sort.Kind == SInt && ic.shifts < 4 {
				// neighbours of a skolem index: invariants of the shape
				// "s'[i] == s[i+1]" (queue pop, delete-at-front) need the
				// hypothesis at sk+1 / sk-1
				ic.shifts++
				ic.addArith(mk("+", IntSort, sk, IntLit(1)))
				ic.addArith(mk("-", IntSort, sk, IntLit(1)))
			}
		}
	}
	rest := pre[i:]
	mat = subst(mat, m)
	if len(rest) == 0 {
		ic.process(mat)
		return
	}
	// rebuild: forall-block then the remaining prefix inside
	var fa []*Term
	j := 0
	for ; j < len(rest) && rest[j].forall; j++ {
		fa = append(fa, rest[j].v)
	}
	inner := mat
	// remaining alternation (exists under forall ...) is re-wrapped
	for k := len(rest) - 1; k >= j; k-- {
		op := "exists"
		if rest[k].forall {
			op = "forall"
		}
		inner = &Term{Op: op, Bound: []*Term{rest[k].v}, Args: []*Term{inner}, Sort: BoolSort}
	}
	u := &Term{Op: "forall", Bound: fa, Args: []*Term{inner}, Sort: BoolSort}
	ic.univ = append(ic.univ, u)
	ic.collectIndexTerms(u, nil)
}

func (ic *instCtx) instantiateRound() int {
	added := 0
	univ := ic.univ
	for _, u := range univ {
		// candidate lists per bound variable
		var lists [][]*Term
		total := 1
		direct := directIndexVars(u)
		for _, b := range u.Bound {
			cands := append([]*Term{}, ic.arith[b.Sort.String()]...)
			if direct[b.Op] {
				cands = append(cands, ic.bySort[b.Sort.String()]...)
			}
			if len(cands) == 0 {
				total = 0
				break
			}
			lists = append(lists, cands)
			total *= len(cands)
		}
		if total == 0 {
			continue
		}
		if total > 600 {
			// too many tuples: restrict each variable to the smaller candidates first
			per := 600
			for range lists {
				per = intSqrtish(per, len(lists))
			}
			for i := range lists {
				if len(lists[i]) > per {
					lists[i] = lists[i][:per]
				}
			}
		}
		idx := make([]int, len(lists))
		for {
			m := map[string]*Term{}
			var key strings.Builder
			key.WriteString(fmt.Sprintf("%p|", u))
			for i, b := range u.Bound {
				m[b.Op] = lists[i][idx[i]]
				key.WriteString(lists[i][idx[i]].String())
				key.WriteString("|")
			}
			if !ic.seenInst[key.String()] && ic.budget > 0 {
				ic.seenInst[key.String()] = true
				ic.budget--
				inst := subst(u.Args[0], m)
				before := len(ic.qf) + len(ic.univ)
				ic.depth++
				ic.process(inst)
				ic.depth--
				if len(ic.qf)+len(ic.univ) > before {
					added++
				}
			}
			// next tuple
			k := len(idx) - 1
			for k >= 0 {
				idx[k]++
				if idx[k] < len(lists[k]) {
					break
				}
				idx[k] = 0
				k--
			}
			if k < 0 {
				break
			}
		}
	}
	return added
}

func intSqrtish(n, k int) int {
	// k-th root, roughly
	r := 1
	for pow(r+1, k) <= n {
		r++
	}
	if r < 4 {
		r = 4
	}
	return r
}

func pow(a, b int) int {
	r := 1
	for i := 0; i < b; i++ {
		r *= a
		if r > 1<<30 {
			return r
		}
	}
	return r
}

// instantiatedText builds the quantifier-free variant of an obligation, or ""
// if the obligation has no quantifiers.
func (c *Ctx) instantiatedText(o *Obligation, hints []*Term) string {
	all := append([]*Term{}, c.hyps[:o.NHyps]...)
	all = append(all, o.Extra...)
	all = append(all, o.PC, Not(o.Goal))
	any := false
	for _, h := range all {
		if containsQuant(h) {
			any = true
			break
		}
	}
	if !any {
		return ""
	}
	ic := &instCtx{grounds: map[string]*Term{}, bySort: map[string][]*Term{}, seenInst: map[string]bool{}, budget: 6000, arith: map[string][]*Term{}}
	for _, h := range hints {
		ic.addArith(h)
	}
	for _, t := range c.cands {
		ic.addArith(t)
	}
	ic.addArith(c.idxConst(0)) // first element / empty prefix
	for _, h := range all {
		ic.process(h)
	}
	for round := 0; round < 2; round++ {
		if ic.instantiateRound() == 0 {
			break
		}
	}
	var sb strings.Builder
	sb.WriteString("; obligation " + o.Name + " (quantifier-free instantiated variant)\n")
	sb.WriteString("(set-option :produce-models true)\n(set-logic ALL)\n")
	for _, d := range c.decls {
		sb.WriteString(d.Text + "\n")
	}
	sort.Strings(ic.decls)
	for _, d := range ic.decls {
		sb.WriteString(d + "\n")
	}
	var hintsOut []*Term
	if c.mode == ModeInt {
		hintsOut = modHints(ic.qf)
	}
	used := map[string]bool{}
	body := make([]*Term, 0, len(ic.qf)+len(hintsOut))
	for _, f := range ic.qf {
		body = append(body, abstractSymbolicMod(f, used))
	}
	for _, h := range hintsOut {
		body = append(body, abstractSymbolicMod(h, used))
	}
	for _, op := range []string{"udiv", "umod", "utdiv", "utmod"} {
		if used[op] {
			sb.WriteString("(declare-fun " + op + " (Int Int) Int)\n")
		}
	}
	for _, f := range body {
		sb.WriteString("(assert " + f.String() + ")\n")
	}
	sb.WriteString("(check-sat)\n")
	return sb.String()
}

// directIndexVars: bound variables of u that occur directly as the index of a
// select/store (possibly as `off + x`) somewhere in the body.
func directIndexVars(u *Term) map[string]bool {
	res := map[string]bool{}
	bound := map[string]bool{}
	for _, b := range u.Bound {
		bound[b.Op] = true
	}
	var walk func(t *Term)
	walk = func(t *Term) {
		if (t.Op == "select" || t.Op == "store") && len(t.Args) >= 2 {
			ix := t.Args[1]
			if len(ix.Args) == 0 && bound[ix.Op] {
				res[ix.Op] = true
			}
		}
		for _, a := range t.Args {
			walk(a)
		}
	}
	walk(u.Args[0])
	return res
}
