package main

import (
	"fmt"
	"go/ast"
	"go/token"
	"go/types"
	"os"
	"sort"
	"strings"

	"golang.org/x/tools/go/packages"
	"golang.org/x/tools/go/ssa"
	"golang.org/x/tools/go/ssa/ssautil"
)

// Program is the typed AST + SSA of the packages a property depends on, built
// from /repo's working tree on every run (build tags: default + verif).
type Program struct {
	Fset  *token.FileSet
	Pkgs  []*packages.Package
	SSA   *ssa.Program
	ByPkg map[string]*ssa.Package // import path -> ssa package
	Root  string
	funcs map[string]*ssa.Function // "importpath::RelString" -> function
}

func repoRoot() string {
	if r := os.Getenv("GOVC_REPO"); r != "" {
		return r
	}
	return "/repo"
}

func loadProgram(patterns []string) (*Program, error) {
	root := repoRoot()
	cfg := &packages.Config{
		Mode: packages.NeedName | packages.NeedFiles | packages.NeedCompiledGoFiles | packages.NeedImports |
			packages.NeedTypes | packages.NeedSyntax | packages.NeedTypesInfo | packages.NeedTypesSizes | packages.NeedModule,
		Fset:       token.NewFileSet(),
		Dir:        root,
		BuildFlags: []string{"-tags=verif"},
		Env:        append(os.Environ(), "GOFLAGS=-mod=mod", "GOPROXY=off"),
	}
	if os.Getenv("GOVC_FULLDEPS") != "" {
		cfg.Mode |= packages.NeedDeps
	}
	pkgs, err := packages.Load(cfg, patterns...)
	if err != nil {
		return nil, err
	}
	nerr := 0
	packages.Visit(pkgs, nil, func(p *packages.Package) {
		for _, e := range p.Errors {
			if nerr < 10 {
				fmt.Fprintf(os.Stderr, "load error: %v\n", e)
			}
			nerr++
		}
	})
	if nerr > 0 {
		return nil, fmt.Errorf("%d package load errors", nerr)
	}
	var prog *ssa.Program
	var spkgs []*ssa.Package
	if cfg.Mode&packages.NeedDeps != 0 {
		prog, spkgs = ssautil.AllPackages(pkgs, ssa.InstantiateGenerics|ssa.GlobalDebug)
	} else {
		// Root packages (the packages under contract plus the extra `load`
		// roots) are built from source; every other dependency is created from
		// its export data only: its functions have no bodies and are treated as
		// abstract calls.
		prog = ssa.NewProgram(cfg.Fset, ssa.InstantiateGenerics|ssa.GlobalDebug)
		isRoot := map[*packages.Package]bool{}
		for _, p := range pkgs {
			isRoot[p] = true
		}
		created := map[*packages.Package]*ssa.Package{}
		packages.Visit(pkgs, nil, func(p *packages.Package) {
			if p.Types == nil || p.IllTyped && isRoot[p] {
				return
			}
			if isRoot[p] && p.TypesInfo != nil {
				created[p] = prog.CreatePackage(p.Types, p.Syntax, p.TypesInfo, true)
			} else {
				created[p] = prog.CreatePackage(p.Types, nil, nil, true)
			}
		})
		for _, p := range pkgs {
			spkgs = append(spkgs, created[p])
		}
	}
	prog.Build()
	p := &Program{Fset: cfg.Fset, Pkgs: pkgs, SSA: prog, ByPkg: map[string]*ssa.Package{}, Root: root, funcs: map[string]*ssa.Function{}}
	if p.Fset == nil {
		p.Fset = prog.Fset
	}
	for i, sp := range spkgs {
		if sp != nil {
			p.ByPkg[pkgs[i].PkgPath] = sp
		}
	}
	for _, sp := range prog.AllPackages() {
		if _, ok := p.ByPkg[sp.Pkg.Path()]; !ok {
			p.ByPkg[sp.Pkg.Path()] = sp
		}
	}
	return p, nil
}

func (p *Program) pkgByPath(path string) *packages.Package {
	var found *packages.Package
	packages.Visit(p.Pkgs, func(q *packages.Package) bool {
		if q.PkgPath == path {
			found = q
			return false
		}
		return found == nil
	}, nil)
	return found
}

// funcKey renders a function the way contracts name it: "name" or
// "(*T).name" / "(T).name", generic receivers without type arguments.
func funcKey(fn *ssa.Function) string {
	if fn.Parent() != nil {
		return funcKey(fn.Parent()) + "$" + strings.TrimPrefix(fn.Name(), fn.Parent().Name()+"$")
	}
	o := fn
	if fn.Origin() != nil {
		o = fn.Origin()
	}
	sig := o.Signature
	if recv := sig.Recv(); recv != nil {
		t := recv.Type()
		ptr := false
		if pt, ok := t.(*types.Pointer); ok {
			ptr = true
			t = pt.Elem()
		}
		name := "?"
		if nt, ok := t.(*types.Named); ok {
			name = nt.Obj().Name()
		}
		if ptr {
			return "(*" + name + ")." + o.Name()
		}
		return "(" + name + ")." + o.Name()
	}
	return o.Name()
}

// lookupFunc finds the function of package pkgPath whose contract key is key.
// For generic functions the (uninstantiated) origin is returned.
func (p *Program) lookupFunc(pkgPath, key string) *ssa.Function {
	ck := pkgPath + "::" + key
	if f, ok := p.funcs[ck]; ok {
		return f
	}
	sp := p.ByPkg[pkgPath]
	if sp == nil {
		return nil
	}
	var res *ssa.Function
	var consider func(fn *ssa.Function)
	consider = func(fn *ssa.Function) {
		if fn == nil || res != nil {
			return
		}
		if funcKey(fn) == key {
			res = fn
			return
		}
		// closures of functions and methods ("F$1", "(*T).m$2")
		for _, an := range fn.AnonFuncs {
			consider(an)
		}
	}
	names := make([]string, 0, len(sp.Members))
	for n := range sp.Members {
		names = append(names, n)
	}
	sort.Strings(names)
	for _, n := range names {
		switch m := sp.Members[n].(type) {
		case *ssa.Function:
			consider(m)
			for _, an := range m.AnonFuncs {
				consider(an)
			}
		case *ssa.Type:
			for _, t := range []types.Type{m.Type(), types.NewPointer(m.Type())} {
				ms := p.SSA.MethodSets.MethodSet(t)
				for i := 0; i < ms.Len(); i++ {
					fn := p.SSA.MethodValue(ms.At(i))
					if fn != nil && fn.Synthetic == "" {
						consider(fn)
					} else if fn != nil && fn.Origin() != nil {
						consider(fn)
					}
				}
			}
			// generic named types have no method set functions; look through the
			// declared methods instead
			if nt, ok := m.Type().(*types.Named); ok {
				for i := 0; i < nt.NumMethods(); i++ {
					consider(p.SSA.FuncValue(nt.Method(i)))
				}
			}
		}
	}
	p.funcs[ck] = res
	return res
}

// srcOf returns the go/ast declaration of fn (nil for synthetic functions).
func srcOf(fn *ssa.Function) ast.Node { return fn.Syntax() }

func posStr(fset *token.FileSet, pos token.Pos) string {
	if !pos.IsValid() {
		return "-"
	}
	p := fset.Position(pos)
	fn := p.Filename
	if i := strings.Index(fn, "/repo/"); i >= 0 {
		fn = fn[i+6:]
	}
	return fmt.Sprintf("%s:%d", fn, p.Line)
}
