package main

import "math/big"

func bigInt(v int64) *big.Int { return big.NewInt(v) }
