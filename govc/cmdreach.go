package main

import (
	"fmt"
	"os"

	"golang.org/x/tools/go/ssa"
)

// cmdReach prints one static call path (static callees with bodies, closures)
// from function <from> to a function whose key is <to> (debugging aid for
// preserve / async-boundary reachability).   govc reach <pkg> <from> <to>
func cmdReach(args []string) {
	prog, err := loadProgram([]string{args[0]})
	if err != nil {
		fmt.Fprintln(os.Stderr, err)
		return
	}
	var start *ssa.Function
	for _, p := range prog.Pkgs {
		if fn := prog.lookupFunc(p.PkgPath, args[1]); fn != nil {
			start = fn
		}
	}
	if start == nil {
		fmt.Println("not found")
		return
	}
	parent := map[*ssa.Function]*ssa.Function{start: nil}
	queue := []*ssa.Function{start}
	for len(queue) > 0 {
		fn := queue[0]
		queue = queue[1:]
		if funcKey(fn) == args[2] || topKey(fn) == args[2] {
			var path []string
			for x := fn; x != nil; x = parent[x] {
				path = append([]string{funcKey(x)}, path...)
			}
			for _, p := range path {
				fmt.Println("  ->", p)
			}
			return
		}
		add := func(c *ssa.Function) {
			if c == nil {
				return
			}
			if _, seen := parent[c]; !seen {
				parent[c] = fn
				queue = append(queue, c)
			}
		}
		for _, b := range fn.Blocks {
			for _, in := range b.Instrs {
				if ci, ok := in.(ssa.CallInstruction); ok {
					if callee := ci.Common().StaticCallee(); callee != nil && len(callee.Blocks) > 0 {
						add(callee)
					}
				}
				if mc, ok := in.(*ssa.MakeClosure); ok {
					add(mc.Fn.(*ssa.Function))
				}
			}
		}
	}
	fmt.Println("unreachable")
}
