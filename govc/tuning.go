package main

import (
	"strconv"
	"strings"
)

// inlineLimit: contract-free, loop-free callees up to this many SSA
// instructions are inlined; larger ones become abstract calls (their computed
// mod-set is havocked). "inline-limit N" in a contract overrides the default.
func (f *frame) inlineLimit() int {
	r := f.root()
	if r.spec != nil {
		if v, ok := r.spec.Flags["inline-limit"]; ok {
			if n, err := strconv.Atoi(strings.TrimSpace(v)); err == nil {
				return n
			}
		}
	}
	return 80
}

// wantsClosedHeap: the closed-heap axioms (references stored in objects that
// exist at entry point below the entry allocation frontier) are only emitted
// for contracts that reason about freshness; dropping hypotheses is sound.
func wantsClosedHeap(sp *FuncSpec) bool {
	if v, ok := sp.Flags["closed-heap"]; ok {
		return v != "off"
	}
	has := func(cs []*Clause) bool {
		for _, c := range cs {
			if strings.Contains(c.Text, "fresh(") || strings.Contains(c.Text, "old_objects_unchanged(") {
				return true
			}
		}
		return false
	}
	if has(sp.Requires) || has(sp.Ensures) {
		return true
	}
	for _, l := range sp.Loops {
		if has(l.Invariants) {
			return true
		}
	}
	if sp.HasMod {
		return true // frame obligations separate old objects from new ones
	}
	return false
}
