package main

import (
	"strings"

	"golang.org/x/tools/go/ssa"
)

// isContextCancel: v is the CancelFunc returned by context.WithCancel /
// WithTimeout / WithDeadline (or their Cause variants). Such a function only
// cancels the context (closing its done channel, stopping its timer); functions
// registered with context.AfterFunc run on their own goroutine. It therefore
// cannot be one of the package's own closures and writes nothing the contracts
// talk about. (Assumption on the standard library, listed in the evidence.)
func isContextCancel(v ssa.Value) bool {
	ex, ok := v.(*ssa.Extract)
	if !ok {
		return false
	}
	call, ok := ex.Tuple.(*ssa.Call)
	if !ok {
		return false
	}
	callee := call.Common().StaticCallee()
	if callee == nil || callee.Pkg == nil && callee.Object() == nil {
		return false
	}
	p, k := calleeKeyOf(callee)
	return p == "context" && strings.HasPrefix(k, "With") && ex.Index == 1
}
