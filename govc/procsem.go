package main

import "runtime"

// procSem bounds the number of concurrently running solver processes.
var procSem = make(chan struct{}, maxInt(4, runtime.NumCPU()))

func maxInt(a, b int) int {
	if a > b {
		return a
	}
	return b
}
