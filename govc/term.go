package main

// SMT terms and sorts. Terms are immutable trees; printing is memo-free but
// obligations stay small (VC size is capped by the caller).

import (
	"fmt"
	"math/big"
	"sort"
	"strings"
)

type SortKind int

const (
	SBool SortKind = iota
	SInt
	SBV
	SArray
	SNamed // declared sort or datatype
	SFP64
	SString
)

type Sort struct {
	Kind  SortKind
	Width int
	Key   *Sort
	Elem  *Sort
	Name  string
}

var (
	BoolSort   = &Sort{Kind: SBool}
	IntSort    = &Sort{Kind: SInt}
	FP64Sort   = &Sort{Kind: SFP64}
	StringSort = &Sort{Kind: SString}
	bvSorts    = map[int]*Sort{}
	arrSorts   = map[string]*Sort{}
	namedSorts = map[string]*Sort{}
)

func BVSort(w int) *Sort {
	if s, ok := bvSorts[w]; ok {
		return s
	}
	s := &Sort{Kind: SBV, Width: w}
	bvSorts[w] = s
	return s
}

func ArraySort(k, e *Sort) *Sort {
	key := k.String() + "->" + e.String()
	if s, ok := arrSorts[key]; ok {
		return s
	}
	s := &Sort{Kind: SArray, Key: k, Elem: e}
	arrSorts[key] = s
	return s
}

func NamedSort(n string) *Sort {
	if s, ok := namedSorts[n]; ok {
		return s
	}
	s := &Sort{Kind: SNamed, Name: n}
	namedSorts[n] = s
	return s
}

func (s *Sort) String() string {
	switch s.Kind {
	case SBool:
		return "Bool"
	case SInt:
		return "Int"
	case SBV:
		return fmt.Sprintf("(_ BitVec %d)", s.Width)
	case SArray:
		return "(Array " + s.Key.String() + " " + s.Elem.String() + ")"
	case SNamed:
		return s.Name
	case SFP64:
		return "(_ FloatingPoint 11 53)"
	case SString:
		return "String"
	}
	return "?"
}

func sameSort(a, b *Sort) bool { return a == b || a.String() == b.String() }

type Term struct {
	Op   string // operator, or name for constants/vars (Args==nil), or literal text
	Args []*Term
	Sort *Sort
	// Binder support for quantifiers: Op=="forall"/"exists", Bound = variables,
	// Args[0] = body, Pats optional patterns.
	Bound []*Term
	Pats  [][]*Term
}

func (t *Term) String() string {
	var sb strings.Builder
	t.write(&sb)
	return sb.String()
}

func (t *Term) write(sb *strings.Builder) {
	if t.Op == "forall" || t.Op == "exists" {
		sb.WriteString("(" + t.Op + " (")
		for _, b := range t.Bound {
			sb.WriteString("(" + b.Op + " " + b.Sort.String() + ")")
		}
		sb.WriteString(") ")
		if len(t.Pats) > 0 {
			sb.WriteString("(! ")
		}
		t.Args[0].write(sb)
		for _, p := range t.Pats {
			sb.WriteString(" :pattern (")
			for i, q := range p {
				if i > 0 {
					sb.WriteString(" ")
				}
				q.write(sb)
			}
			sb.WriteString(")")
		}
		if len(t.Pats) > 0 {
			sb.WriteString(")")
		}
		sb.WriteString(")")
		return
	}
	if len(t.Args) == 0 {
		sb.WriteString(t.Op)
		return
	}
	sb.WriteString("(")
	sb.WriteString(t.Op)
	for _, a := range t.Args {
		sb.WriteString(" ")
		a.write(sb)
	}
	sb.WriteString(")")
}

func mk(op string, s *Sort, args ...*Term) *Term { return &Term{Op: op, Args: args, Sort: s} }

var (
	True  = mk("true", BoolSort)
	False = mk("false", BoolSort)
)

func Var(name string, s *Sort) *Term { return &Term{Op: name, Sort: s} }

func IntLit(v int64) *Term { return BigIntLit(big.NewInt(v)) }

func BigIntLit(v *big.Int) *Term {
	if v.Sign() < 0 {
		return mk("-", IntSort, &Term{Op: new(big.Int).Neg(v).String(), Sort: IntSort})
	}
	return &Term{Op: v.String(), Sort: IntSort}
}

func BVLit(v *big.Int, w int) *Term {
	m := new(big.Int).Lsh(big.NewInt(1), uint(w))
	x := new(big.Int).Mod(v, m)
	if x.Sign() < 0 {
		x.Add(x, m)
	}
	return &Term{Op: fmt.Sprintf("(_ bv%s %d)", x.String(), w), Sort: BVSort(w)}
}

func isTrue(t *Term) bool  { return t.Op == "true" && len(t.Args) == 0 }
func isFalse(t *Term) bool { return t.Op == "false" && len(t.Args) == 0 }

func And(ts ...*Term) *Term {
	var out []*Term
	for _, t := range ts {
		if t == nil || isTrue(t) {
			continue
		}
		if isFalse(t) {
			return False
		}
		if t.Op == "and" && len(t.Args) > 0 {
			out = append(out, t.Args...)
			continue
		}
		out = append(out, t)
	}
	if len(out) == 0 {
		return True
	}
	if len(out) == 1 {
		return out[0]
	}
	return mk("and", BoolSort, out...)
}

func Or(ts ...*Term) *Term {
	var out []*Term
	for _, t := range ts {
		if t == nil || isFalse(t) {
			continue
		}
		if isTrue(t) {
			return True
		}
		out = append(out, t)
	}
	if len(out) == 0 {
		return False
	}
	if len(out) == 1 {
		return out[0]
	}
	return mk("or", BoolSort, out...)
}

func Not(t *Term) *Term {
	if isTrue(t) {
		return False
	}
	if isFalse(t) {
		return True
	}
	if t.Op == "not" && len(t.Args) == 1 {
		return t.Args[0]
	}
	return mk("not", BoolSort, t)
}

func Implies(a, b *Term) *Term {
	if isTrue(a) {
		return b
	}
	if isFalse(a) || isTrue(b) {
		return True
	}
	return mk("=>", BoolSort, a, b)
}

func Eq(a, b *Term) *Term {
	if a == b {
		return True
	}
	if !sameSort(a.Sort, b.Sort) {
		panic(fmt.Sprintf("Eq: sort mismatch %s : %s vs %s : %s", a, a.Sort, b, b.Sort))
	}
	return mk("=", BoolSort, a, b)
}

func Ite(c, a, b *Term) *Term {
	if isTrue(c) {
		return a
	}
	if isFalse(c) {
		return b
	}
	if a == b {
		return a
	}
	if !sameSort(a.Sort, b.Sort) {
		panic(fmt.Sprintf("Ite: sort mismatch %s vs %s (%s / %s)", a.Sort, b.Sort, a, b))
	}
	return mk("ite", a.Sort, c, a, b)
}

func Select(a, i *Term) *Term {
	if a.Sort.Kind != SArray {
		panic("select on non-array " + a.String() + " : " + a.Sort.String())
	}
	if !sameSort(a.Sort.Key, i.Sort) {
		panic(fmt.Sprintf("select key sort mismatch: %s idx %s : %s", a.Sort, i, i.Sort))
	}
	return mk("select", a.Sort.Elem, a, i)
}

func Store(a, i, v *Term) *Term {
	if a.Sort.Kind != SArray {
		panic("store on non-array " + a.String())
	}
	if !sameSort(a.Sort.Key, i.Sort) || !sameSort(a.Sort.Elem, v.Sort) {
		panic(fmt.Sprintf("store sort mismatch: %s idx %s:%s val %s:%s", a.Sort, i, i.Sort, v, v.Sort))
	}
	return mk("store", a.Sort, a, i, v)
}

func App(fn string, s *Sort, args ...*Term) *Term { return mk(fn, s, args...) }

func Forall(bound []*Term, body *Term) *Term {
	if len(bound) == 0 {
		return body
	}
	return &Term{Op: "forall", Args: []*Term{body}, Bound: bound, Sort: BoolSort}
}

func Exists(bound []*Term, body *Term) *Term {
	if len(bound) == 0 {
		return body
	}
	return &Term{Op: "exists", Args: []*Term{body}, Bound: bound, Sort: BoolSort}
}

// subst replaces free occurrences of variables (by name) in t.
func subst(t *Term, m map[string]*Term) *Term {
	if len(m) == 0 {
		return t
	}
	if len(t.Args) == 0 && t.Bound == nil {
		if r, ok := m[t.Op]; ok {
			return r
		}
		return t
	}
	if t.Bound != nil {
		m2 := m
		for _, b := range t.Bound {
			if _, ok := m[b.Op]; ok {
				if &m2 == &m || len(m2) == len(m) {
					m2 = map[string]*Term{}
					for k, v := range m {
						m2[k] = v
					}
				}
				delete(m2, b.Op)
			}
		}
		nb := subst(t.Args[0], m2)
		var pats [][]*Term
		for _, p := range t.Pats {
			var np []*Term
			for _, q := range p {
				np = append(np, subst(q, m2))
			}
			pats = append(pats, np)
		}
		return &Term{Op: t.Op, Args: []*Term{nb}, Bound: t.Bound, Sort: t.Sort, Pats: pats}
	}
	changed := false
	na := make([]*Term, len(t.Args))
	for i, a := range t.Args {
		na[i] = subst(a, m)
		if na[i] != a {
			changed = true
		}
	}
	if !changed {
		return t
	}
	return &Term{Op: t.Op, Args: na, Sort: t.Sort}
}

// freeConsts collects names of 0-ary symbols occurring in t (excluding bound).
func freeConsts(t *Term, out map[string]*Sort, bound map[string]bool) {
	if t.Bound != nil {
		nb := map[string]bool{}
		for k := range bound {
			nb[k] = true
		}
		for _, b := range t.Bound {
			nb[b.Op] = true
		}
		freeConsts(t.Args[0], out, nb)
		for _, p := range t.Pats {
			for _, q := range p {
				freeConsts(q, out, nb)
			}
		}
		return
	}
	if len(t.Args) == 0 {
		if !bound[t.Op] {
			out[t.Op] = t.Sort
		}
		return
	}
	for _, a := range t.Args {
		freeConsts(a, out, bound)
	}
}

func sortedKeys[V any](m map[string]V) []string {
	ks := make([]string, 0, len(m))
	for k := range m {
		ks = append(ks, k)
	}
	sort.Strings(ks)
	return ks
}

func termSize(t *Term) int {
	n := 1
	for _, a := range t.Args {
		n += termSize(a)
	}
	return n
}
