package main

import (
	"go/token"
	"go/types"

	"golang.org/x/tools/go/ssa"
)

// rangeIndexBound recognises the header of a `for i := range slice` loop as
// go/ssa builds it:
//
//	t3 = phi [entry: -1, body: t4] #rangeindex
//	t4 = t3 + 1
//	t5 = t4 < tlen          (tlen computed before the loop)
//	if t5 goto body else done
//
// and returns (phi, tlen). The inductive fact  -1 <= phi && (phi == -1 ||
// phi < tlen)  is then used as an automatic loop invariant (it is checked like
// a user invariant, under the obligation name loop#N/auto-bounds).
func rangeIndexBound(h *ssa.BasicBlock) (*ssa.Phi, ssa.Value) {
	if len(h.Instrs) < 4 {
		return nil, nil
	}
	phi, ok := h.Instrs[0].(*ssa.Phi)
	if !ok || phi.Comment != "rangeindex" {
		return nil, nil
	}
	add, ok := h.Instrs[1].(*ssa.BinOp)
	if !ok || add.Op != token.ADD || add.X != phi {
		return nil, nil
	}
	cmp, ok := h.Instrs[2].(*ssa.BinOp)
	if !ok || cmp.Op != token.LSS || cmp.X != add {
		return nil, nil
	}
	if _, ok := h.Instrs[3].(*ssa.If); !ok {
		return nil, nil
	}
	return phi, cmp.Y
}

// autoBound builds the automatic bound invariant for the current values of
// the phi (whatever f.vals holds for it) or nil.
func (f *frame) autoBound(li *loopInfo) *Term {
	phi, lenV := rangeIndexBound(li.header)
	if phi == nil {
		return nil
	}
	c := f.c
	pv := f.get(phi).T
	lv := f.get(lenV).T
	if pv == nil || lv == nil {
		return nil
	}
	m1 := c.intConst(bigInt(-1), types.Typ[types.Int])
	return And(c.cmp(token.LEQ, m1, pv, true), Or(Eq(pv, m1), c.cmp(token.LSS, pv, lv, true)))
}
