package main

import (
	"go/types"

	"golang.org/x/tools/go/ssa"
)

// A private cell is a heap-allocated local (a variable captured by a closure,
// e.g. a method receiver used inside a deferred function literal) whose address
// never leaves the function except into closures that only READ it. No callee
// can write such a cell, so its value survives abstract calls although the
// coarse mod-set of a callee names the whole cell heap of its type.
type privCell struct {
	ref  *Term
	elem types.Type
}

// isPrivateCell: every use of the Alloc is a load, a store of a value INTO it,
// a debug reference, or a binding into a closure whose corresponding free
// variable is only loaded from.
func isPrivateCell(a *ssa.Alloc) bool {
	if !a.Heap || a.Referrers() == nil {
		return false
	}
	if _, isStruct := a.Type().(*types.Pointer).Elem().Underlying().(*types.Struct); isStruct {
		return false
	}
	if _, isArr := a.Type().(*types.Pointer).Elem().Underlying().(*types.Array); isArr {
		return false
	}
	for _, r := range *a.Referrers() {
		switch u := r.(type) {
		case *ssa.UnOp, *ssa.DebugRef:
		case *ssa.Store:
			if u.Addr != a {
				return false // the address itself is stored somewhere
			}
		case *ssa.MakeClosure:
			fn, ok := u.Fn.(*ssa.Function)
			if !ok {
				return false
			}
			for i, b := range u.Bindings {
				if b != ssa.Value(a) {
					continue
				}
				if i >= len(fn.FreeVars) || !onlyLoaded(fn.FreeVars[i]) {
					return false
				}
			}
		default:
			return false
		}
	}
	return true
}

func onlyLoaded(fv *ssa.FreeVar) bool {
	if fv.Referrers() == nil {
		return true
	}
	for _, r := range *fv.Referrers() {
		switch r.(type) {
		case *ssa.UnOp, *ssa.DebugRef:
		default:
			return false
		}
	}
	return true
}

// snapshotPrivate records the cell heaps of the private cells of the active
// frames before a call; keepPrivate re-asserts the cells' values afterwards.
func (f *frame) snapshotPrivate(st State) map[string]*Term {
	var snap map[string]*Term
	for fr := f; fr != nil; fr = fr.parent {
		for _, pc := range fr.private {
			hn := "P$" + typeName(pc.elem)
			if v, ok := st[hn]; ok && !isMarker(v) {
				if snap == nil {
					snap = map[string]*Term{}
				}
				snap[hn] = v
			}
		}
	}
	return snap
}

func (f *frame) keepPrivate(snap map[string]*Term, st State) {
	if snap == nil {
		return
	}
	for fr := f; fr != nil; fr = fr.parent {
		for _, pc := range fr.private {
			hn := "P$" + typeName(pc.elem)
			before, ok := snap[hn]
			after, ok2 := st[hn]
			if !ok || !ok2 || isMarker(after) || before == after {
				continue
			}
			f.c.addHyp(Eq(Select(after, pc.ref), Select(before, pc.ref)))
		}
	}
}
