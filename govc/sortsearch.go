package main

import (
	"go/token"
	"strings"
	"go/types"

	"golang.org/x/tools/go/ssa"
)

// sort.Search(n, pred) with a statically known, loop-free predicate closure.
//
// The predicate is executed symbolically ONCE at a fresh index constant k (its
// free variables bound to the captured values, in the state at the call); the
// resulting boolean term P(k) is then used at other indices by substitution.
// Obligation (checked, named ".../search-predicate-monotone"): on [0,n) P(i)
// implies P(i+1) - the precondition sort.Search documents. Under it the library
// guarantees what is assumed of the result r:
//     0 <= r <= n,   forall i in [0,r): !P(i),   r < n ==> P(r).
// (That guarantee is the documented behaviour of the standard library's binary
// search and is listed as an assumption.)
func init() {
	intrinsics["sort::Search"] = func(f *frame, cc *ssa.CallCommon, args []Val, pc *Term, st State, resType types.Type) (Val, bool) {
		if len(args) != 2 {
			return Val{}, false
		}
		cv, ok := args[1].Fn.(*closureVal)
		if !ok || cv.fn == nil || len(cv.fn.Blocks) == 0 || hasLoops(cv.fn) || len(cv.fn.Params) != 1 {
			return Val{}, false
		}
		c := f.c
		intT := types.Typ[types.Int]
		n := c.idxOf(args[0].T, args[0].Typ)
		k := c.fresh("search_k", c.idxSort())
		g := c.newFrame(cv.fn, nil, f)
		if len(cv.bindings) > 0 {
			g.free = map[ssa.Value]Val{}
			for i, fv := range cv.fn.FreeVars {
				if i < len(cv.bindings) {
					g.free[fv] = cv.bindings[i]
				}
			}
		}
		inRange := And(c.cmp(token.LEQ, c.idxConst(0), k, true), c.cmp(token.LSS, k, n, true))
		d0, h0, o0 := len(c.decls), len(c.hyps), len(c.obls)
		_, res, _ := g.run(And(pc, inRange), st.clone(), []Val{{T: k, Typ: intT}})
		if len(res) != 1 || res[0].T == nil || res[0].T.Sort != BoolSort || len(c.obls) != o0 {
			return Val{}, false
		}
		// the run named its intermediate values by constants defined through
		// equations; at another index they are other values: every constant the run
		// introduced becomes a function of the index (a skolem function), and the
		// run's facts are re-stated for all indices in range
		runHyps := append([]*Term{}, c.hyps[h0:]...)
		c.hyps = c.hyps[:h0]
		isNew := map[string]bool{}
		for _, d := range c.decls[d0:] {
			if strings.Contains(d.Text, " () ") {
				isNew[d.Name] = true
			}
		}
		var lift func(t *Term, i *Term) *Term
		lift = func(t *Term, i *Term) *Term {
			if len(t.Args) == 0 && t.Bound == nil {
				if t.Op == k.Op {
					return i
				}
				if isNew[t.Op] {
					fn := t.Op + "$at"
					c.declFun(fn, []*Sort{c.idxSort()}, t.Sort)
					return App(fn, t.Sort, i)
				}
				return t
			}
			args := make([]*Term, len(t.Args))
			for j, a := range t.Args {
				args[j] = lift(a, i)
			}
			return &Term{Op: t.Op, Args: args, Sort: t.Sort, Bound: t.Bound, Pats: t.Pats}
		}
		P := func(i *Term) *Term { return lift(res[0].T, i) }
		{
			q := Var("i!s", c.idxSort())
			var lifted []*Term
			for _, h := range runHyps {
				lifted = append(lifted, lift(h, q))
			}
			if len(lifted) > 0 {
				c.addHyp(Forall([]*Term{q}, Implies(And(c.cmp(token.LEQ, c.idxConst(0), q, true), c.cmp(token.LSS, q, n, true)), And(lifted...))))
			}
		}
		i := Var("i!q", c.idxSort())
		one := c.idxConst(1)
		ip1 := c.arith(token.ADD, i, one, intT)
		mono := Forall([]*Term{i}, Implies(And(c.cmp(token.LEQ, c.idxConst(0), i, true), c.cmp(token.LSS, ip1, n, true), P(i)), P(ip1)))
		var pos token.Pos
		if v, ok := cc.Value.(ssa.Value); ok && v != nil {
			pos = cc.Pos()
		}
		f.check("requires", f.oblName("search-predicate-monotone"), pc, mono, pos, &Clause{Label: "search-predicate-monotone", Text: "on [0,n) the predicate handed to sort.Search, once true, stays true"})
		r := c.fresh("search", c.idxSort())
		c.addHyp(Implies(pc, And(c.cmp(token.LEQ, c.idxConst(0), r, true), c.cmp(token.LEQ, r, n, true))))
		c.addHyp(Implies(pc, Forall([]*Term{i}, Implies(And(c.cmp(token.LEQ, c.idxConst(0), i, true), c.cmp(token.LSS, i, r, true)), Not(P(i))))))
		c.addHyp(Implies(pc, Implies(c.cmp(token.LSS, r, n, true), P(r))))
		c.note("assumed: sort.Search returns the smallest index at which a monotone predicate holds (documented behaviour of the standard library; monotonicity itself is a checked obligation)")
		return Val{T: r, Typ: intT}, true
	}
}
