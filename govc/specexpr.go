package main

// Evaluation of contract expressions (Go expression syntax + extensions) to
// SMT terms in a given program state.

import (
	"fmt"
	"go/ast"
	"go/constant"
	"go/token"
	"go/types"
	"math/big"
	"strconv"
	"strings"

	"golang.org/x/tools/go/ssa"
)

type specEnv struct {
	f        *frame
	st       State
	old      State
	vars     map[string]Val
	results  []Val
	at       *ssa.BasicBlock   // program point for resolving locals
	override map[string]Val    // phi overrides (loop entry / back edge)
	calleeOf *ssa.Function     // function whose scope names are resolved in
	inOld    bool
	depth    int
	pkgT     *types.Package
	atInstr  ssa.Instruction
	params   map[string]Val // parameter bindings at a program point (see setParam)
}

type specError struct{ msg string }

func (e *specEnv) fail(format string, a ...interface{}) {
	panic(specError{fmt.Sprintf(format, a...)})
}

func (f *frame) newSpecEnv(st, old State) *specEnv {
	return &specEnv{f: f, st: st, old: old, vars: map[string]Val{}}
}

func (e *specEnv) clone() *specEnv {
	n := *e
	n.vars = map[string]Val{}
	for k, v := range e.vars {
		n.vars[k] = v
	}
	return &n
}

func (e *specEnv) c() *Ctx { return e.f.c }

func (e *specEnv) pkg() *types.Package {
	if e.pkgT != nil {
		return e.pkgT
	}
	if e.calleeOf != nil {
		return pkgOfFn(e.calleeOf)
	}
	return pkgOfFn(e.f.root().fn)
}

func (e *specEnv) evalBool(x SExpr) *Term {
	v := e.eval(x)
	if v.T == nil || v.T.Sort != BoolSort {
		e.fail("expected a boolean expression")
	}
	return v.T
}

func (e *specEnv) eval(x SExpr) Val {
	switch k := x.(type) {
	case *SImpl:
		return Val{T: Implies(e.evalBool(k.A), e.evalBool(k.B)), Typ: types.Typ[types.Bool]}
	case *SQuant:
		n := e.clone()
		var bound []*Term
		var guards []*Term
		for _, v := range k.Vars {
			var t types.Type
			if strings.HasPrefix(v.Type, "keyof(") || strings.HasPrefix(v.Type, "elemof(") {
				// binder typed after a map/slice-valued expression (generic contracts)
				inner := v.Type[strings.Index(v.Type, "(")+1 : len(v.Type)-1]
				ie, err := parseSExpr(inner)
				if err != nil {
					e.fail("bad binder type %q", v.Type)
				}
				iv := e.eval(ie)
				switch u := iv.Typ.Underlying().(type) {
				case *types.Map:
					if strings.HasPrefix(v.Type, "keyof(") {
						t = u.Key()
					} else {
						t = u.Elem()
					}
				case *types.Slice:
					t = u.Elem()
				}
			} else {
				t = e.c().evalType(v.Type, e.pkg())
			}
			if t == nil {
				e.fail("unknown type %q in binder", v.Type)
			}
			uniqCounter++
			bv := Var(fmt.Sprintf("%s!b%d", v.Name, uniqCounter), e.c().sortOf(t))
			bound = append(bound, bv)
			n.vars[v.Name] = Val{T: bv, Typ: t}
			if _, isPtr := t.Underlying().(*types.Pointer); isPtr && k.Forall {
				// a universally quantified pointer ranges over every address, not
				// only the well-typed ones: the statement proved is the stronger
				// one, and a caller can instantiate it with a pointer it merely
				// read from the heap (whose non-negativity it may not know)
				continue
			}
			guards = append(guards, e.c().wellTyped(bv, t))
		}
		body := n.evalBool(k.Body)
		if k.Forall {
			return Val{T: Forall(bound, Implies(And(guards...), body)), Typ: types.Typ[types.Bool]}
		}
		return Val{T: Exists(bound, And(And(guards...), body)), Typ: types.Typ[types.Bool]}
	case *SOr:
		var ts []*Term
		for _, x := range k.Es {
			ts = append(ts, e.evalBool(x))
		}
		return Val{T: Or(ts...), Typ: types.Typ[types.Bool]}
	case *SNot:
		return Val{T: Not(e.evalBool(k.E)), Typ: types.Typ[types.Bool]}
	case *SAnd:
		var ts []*Term
		for _, x := range k.Es {
			ts = append(ts, e.evalBool(x))
		}
		return Val{T: And(ts...), Typ: types.Typ[types.Bool]}
	case *SGo:
		return e.expr(k.E)
	}
	e.fail("bad spec expression")
	return Val{}
}

func (e *specEnv) state() State {
	if e.inOld {
		return e.old
	}
	return e.st
}

func untyped(v *big.Int) Val { return Val{Const: v} }

// fit materialises an untyped constant against the type of the other operand.
func (e *specEnv) fit(v Val, t types.Type) Val {
	if v.Typ == types.Typ[types.UntypedNil] && t != nil {
		// nil assigned to a ghost variable / compared at an interface type
		if types.IsInterface(t) {
			return Val{T: Var("iface_nil", e.c().ifaceSort()), Typ: t}
		}
		return Val{T: e.c().zero(t), Typ: t}
	}
	if v.Const == nil || v.T != nil {
		return v
	}
	if t == nil {
		t = types.Typ[types.Int]
	}
	if isFloat(t) {
		f, _ := new(big.Float).SetInt(v.Const).Float64()
		return Val{T: e.c().floatConst(f), Typ: t}
	}
	return Val{T: e.c().intConst(v.Const, t), Typ: t}
}

func (e *specEnv) expr(x ast.Expr) Val {
	c := e.c()
	switch k := x.(type) {
	case *ast.ParenExpr:
		return e.expr(k.X)
	case *ast.BasicLit:
		switch k.Kind {
		case token.INT:
			v, ok := new(big.Int).SetString(k.Value, 0)
			if !ok {
				e.fail("bad int literal %s", k.Value)
			}
			return untyped(v)
		case token.STRING:
			s, _ := strconv.Unquote(k.Value)
			return Val{T: c.stringConst(s), Typ: types.Typ[types.String]}
		case token.FLOAT:
			fv, _ := strconv.ParseFloat(k.Value, 64)
			return Val{T: c.floatConst(fv), Typ: types.Typ[types.Float64]}
		case token.CHAR:
			s, _ := strconv.Unquote(k.Value)
			return untyped(big.NewInt(int64([]rune(s)[0])))
		}
	case *ast.Ident:
		return e.ident(k.Name)
	case *ast.UnaryExpr:
		v := e.expr(k.X)
		switch k.Op {
		case token.NOT:
			return Val{T: Not(v.T), Typ: types.Typ[types.Bool]}
		case token.SUB:
			if v.Const != nil {
				return untyped(new(big.Int).Neg(v.Const))
			}
			if c.mode == ModeBV {
				return Val{T: mk("bvneg", v.T.Sort, v.T), Typ: v.Typ}
			}
			return Val{T: mk("-", IntSort, v.T), Typ: v.Typ}
		case token.AND:
			// &x.f : address of a field (for pure accessor calls on embedded structs)
			return e.addrOf(k.X)
		}
	case *ast.BinaryExpr:
		return e.binary(k)
	case *ast.SelectorExpr:
		return e.selector(k)
	case *ast.IndexExpr:
		return e.index(k)
	case *ast.SliceExpr:
		return e.sliceExpr(k)
	case *ast.CallExpr:
		return e.callExpr(k)
	case *ast.StarExpr:
		p := e.expr(k.X)
		return e.f.load(e.state(), p)
	case *ast.TypeAssertExpr:
		// x.(T): the value boxed in interface x, meaningful when is(x, T) holds
		v := e.expr(k.X)
		t := c.evalType(types.ExprString(k.Type), e.pkg())
		if t == nil {
			e.fail("unknown type in type assertion: %s", types.ExprString(k.Type))
		}
		if v.T == nil || v.T.Sort != c.ifaceSort() {
			e.fail("type assertion on a non-interface value")
		}
		tn := typeName(t)
		c.declFun("unbox$"+tn, []*Sort{c.ifaceSort()}, c.sortOf(t))
		return Val{T: App("unbox$"+tn, c.sortOf(t), v.T), Typ: t}
	}
	e.fail("unsupported expression %T", x)
	return Val{}
}

func (e *specEnv) addrOf(x ast.Expr) Val {
	switch k := x.(type) {
	case *ast.SelectorExpr:
		base := e.expr(k.X)
		bt := deref(base.Typ)
		st, ok := bt.Underlying().(*types.Struct)
		if !ok {
			e.fail("address of field of non-struct")
		}
		for i := 0; i < st.NumFields(); i++ {
			if st.Field(i).Name() == k.Sel.Name {
				if _, isPtr := base.Typ.Underlying().(*types.Pointer); !isPtr && base.P == nil {
					e.fail("address of field of struct value")
				}
				return Val{P: &Ptr{Kind: PField, Base: &base, Field: i, Elem: st.Field(i).Type()}, Typ: types.NewPointer(st.Field(i).Type())}
			}
		}
	case *ast.IndexExpr:
		// &s[i]: the address of a slice element (same representation as the SSA
		// IndexAddr instruction produces)
		base := e.expr(k.X)
		if sl, ok := base.Typ.Underlying().(*types.Slice); ok && base.T != nil {
			iv := e.expr(k.Index)
			idx := e.c().idxOf(iv.T, iv.Typ)
			return Val{P: &Ptr{Kind: PSliceElem, Base: &base, Idx: idx, Elem: sl.Elem()}, Typ: types.NewPointer(sl.Elem())}
		}
	}
	e.fail("unsupported address-of")
	return Val{}
}

func (e *specEnv) ident(name string) Val {
	c := e.c()
	if v, ok := e.vars[name]; ok {
		return v
	}
	switch name {
	case "true":
		return Val{T: True, Typ: types.Typ[types.Bool]}
	case "false":
		return Val{T: False, Typ: types.Typ[types.Bool]}
	case "nil":
		return Val{Const: nil, Typ: types.Typ[types.UntypedNil], T: IntLit(0)}
	case "result":
		if len(e.results) == 0 {
			e.fail("'result' used but the function returns nothing here")
		}
		return e.results[0]
	}
	if strings.HasPrefix(name, "result") {
		if i, err := strconv.Atoi(name[6:]); err == nil && i < len(e.results) {
			return e.results[i]
		}
	}
	if v, ok := e.override[name]; ok {
		return v
	}
	if g, ok := c.specs.Ghosts[name]; ok {
		t := c.evalType(g.Type, e.pkg())
		hn := "ghost$" + name
		return Val{T: c.heapVar(e.state(), hn, c.sortOf(t)), Typ: t}
	}
	if e.inOld {
		// old(p) of a parameter is its value at function entry
		if v, ok := e.params[name]; ok {
			return v
		}
	}
	if e.at != nil {
		if v, ok := e.f.localAt(name, e.at, e.state(), e.atInstr); ok {
			return v
		}
	}
	if v, ok := e.params[name]; ok {
		return v
	}
	// package-level constant or variable
	if pkg := e.pkg(); pkg != nil {
		if o := pkg.Scope().Lookup(name); o != nil {
			switch ob := o.(type) {
			case *types.Const:
				return e.constObj(ob)
			case *types.Var:
				hn := "G$" + smtIdent(pkg.Path()+"."+name)
				return Val{T: c.heapVar(e.state(), hn, c.sortOf(ob.Type())), Typ: ob.Type()}
			}
		}
	}
	if o := types.Universe.Lookup(name); o != nil {
		if cst, ok := o.(*types.Const); ok {
			return e.constObj(cst)
		}
	}
	e.fail("unknown identifier %q", name)
	return Val{}
}

func (e *specEnv) constObj(ob *types.Const) Val {
	c := e.c()
	if b, ok := ob.Type().Underlying().(*types.Basic); ok && b.Info()&types.IsUntyped != 0 && ob.Val().Kind() == constant.Int {
		v, _ := new(big.Int).SetString(ob.Val().ExactString(), 10)
		return untyped(v)
	}
	if t := c.constVal(ob.Val(), ob.Type()); t != nil {
		return Val{T: t, Typ: ob.Type()}
	}
	e.fail("unsupported constant %s", ob.Name())
	return Val{}
}

func (e *specEnv) binary(k *ast.BinaryExpr) Val {
	c := e.c()
	boolT := types.Typ[types.Bool]
	switch k.Op {
	case token.LAND:
		return Val{T: And(e.boolOf(k.X), e.boolOf(k.Y)), Typ: boolT}
	case token.LOR:
		return Val{T: Or(e.boolOf(k.X), e.boolOf(k.Y)), Typ: boolT}
	}
	a, b := e.expr(k.X), e.expr(k.Y)
	if a.Const != nil && b.Const != nil && a.T == nil && b.T == nil {
		r := new(big.Int)
		switch k.Op {
		case token.ADD:
			return untyped(r.Add(a.Const, b.Const))
		case token.SUB:
			return untyped(r.Sub(a.Const, b.Const))
		case token.MUL:
			return untyped(r.Mul(a.Const, b.Const))
		case token.QUO:
			return untyped(r.Quo(a.Const, b.Const))
		case token.REM:
			return untyped(r.Rem(a.Const, b.Const))
		case token.SHL:
			return untyped(r.Lsh(a.Const, uint(b.Const.Int64())))
		case token.SHR:
			return untyped(r.Rsh(a.Const, uint(b.Const.Int64())))
		}
		a = e.fit(a, types.Typ[types.Int])
		b = e.fit(b, types.Typ[types.Int])
	}
	if k.Op == token.SHL || k.Op == token.SHR {
		a = e.fit(a, types.Typ[types.Int])
		b = e.fit(b, a.Typ)
		if c.mode == ModeBV && b.T.Sort.Kind == SBV && a.T.Sort.Kind == SBV && b.T.Sort.Width != a.T.Sort.Width {
			b = Val{T: c.convertInt(b.T, b.Typ, a.Typ), Typ: a.Typ}
		}
		return Val{T: c.arith(k.Op, a.T, b.T, a.Typ), Typ: a.Typ}
	}
	a = e.fit(a, b.Typ)
	b = e.fit(b, a.Typ)
	// nil takes the zero value of the other operand's type (interface, slice, ...)
	isNil := func(v Val) bool {
		bs, ok := v.Typ.(*types.Basic)
		return ok && bs.Kind() == types.UntypedNil
	}
	if isNil(a) && b.Typ != nil && !isNil(b) {
		a = Val{T: c.zero(b.Typ), Typ: b.Typ}
	} else if isNil(b) && a.Typ != nil && !isNil(a) {
		b = Val{T: c.zero(a.Typ), Typ: a.Typ}
	}
	at, bt := e.f.term(a), e.f.term(b)
	if !sameSort(at.Sort, bt.Sort) {
		e.fail("operands of %s have different sorts: %s vs %s (%s / %s)", k.Op, at.Sort, bt.Sort, types.ExprString(k.X), types.ExprString(k.Y))
	}
	switch k.Op {
	case token.EQL:
		return Val{T: Eq(at, bt), Typ: boolT}
	case token.NEQ:
		return Val{T: Not(Eq(at, bt)), Typ: boolT}
	case token.LSS, token.LEQ, token.GTR, token.GEQ:
		if a.Typ != nil {
			if bs, ok := a.Typ.Underlying().(*types.Basic); ok && bs.Info()&types.IsString != 0 {
				return Val{T: c.strCmp(k.Op, at, bt), Typ: boolT}
			}
		}
		signed := true
		if _, s, ok := intInfo(a.Typ); ok {
			signed = s
		}
		return Val{T: c.cmp(k.Op, at, bt, signed), Typ: boolT}
	}
	if at.Sort == BoolSort {
		switch k.Op {
		case token.AND:
			return Val{T: And(at, bt), Typ: boolT}
		case token.OR:
			return Val{T: Or(at, bt), Typ: boolT}
		case token.XOR:
			return Val{T: Not(Eq(at, bt)), Typ: boolT}
		}
	}
	t := a.Typ
	if t == nil {
		t = b.Typ
	}
	if bs, ok := t.Underlying().(*types.Basic); ok && bs.Info()&types.IsString != 0 && k.Op == token.ADD {
		return Val{T: c.strCat(at, bt), Typ: t}
	}
	return Val{T: c.arith(k.Op, at, bt, t), Typ: t}
}

func (e *specEnv) boolOf(x ast.Expr) *Term {
	v := e.expr(x)
	if v.T == nil || v.T.Sort != BoolSort {
		e.fail("expected boolean: %s", types.ExprString(x))
	}
	return v.T
}

func (e *specEnv) selector(k *ast.SelectorExpr) Val {
	c := e.c()
	// package-qualified constant?
	if id, ok := k.X.(*ast.Ident); ok {
		if _, bound := e.vars[id.Name]; !bound {
			if pkg := e.pkg(); pkg != nil {
				for _, imp := range pkg.Imports() {
					if imp.Name() == id.Name {
						if o := imp.Scope().Lookup(k.Sel.Name); o != nil {
							switch ob := o.(type) {
							case *types.Const:
								return e.constObj(ob)
							case *types.Var:
								hn := "G$" + smtIdent(imp.Path()+"."+k.Sel.Name)
								return Val{T: c.heapVar(e.state(), hn, c.sortOf(ob.Type())), Typ: ob.Type()}
							}
						}
					}
				}
			}
		}
	}
	base := e.expr(k.X)
	if base.Typ == nil {
		e.fail("selector on untyped value")
	}
	bt := base.Typ
	isPtr := false
	if p, ok := bt.Underlying().(*types.Pointer); ok {
		bt = p.Elem()
		isPtr = true
	}
	st, ok := bt.Underlying().(*types.Struct)
	if !ok {
		e.fail("selector .%s on non-struct %s", k.Sel.Name, bt)
	}
	// find field (including promoted through embedded structs)
	path := findField(st, k.Sel.Name)
	if path == nil {
		e.fail("no field %s in %s", k.Sel.Name, bt)
	}
	cur := base
	curT := bt
	curIsPtr := isPtr || base.P != nil
	for _, i := range path {
		cst := curT.Underlying().(*types.Struct)
		ft := cst.Field(i).Type()
		if curIsPtr {
			b := cur
			cur = e.f.load(e.state(), Val{P: &Ptr{Kind: PField, Base: &b, Field: i, Elem: ft}, Typ: types.NewPointer(ft)})
			if cur.T != nil && isGround(cur.T, nil) {
				// a stored field holds a value of its Go type (slice lengths are
				// non-negative, sized integers are in range)
				c.addHyp(c.wellTyped(cur.T, ft))
			}
		} else {
			cur = Val{T: c.structField(curT, cst, cur.T, i), Typ: ft}
		}
		cur.Typ = ft
		curT = ft
		curIsPtr = false
		if p, ok := ft.Underlying().(*types.Pointer); ok {
			curT = p.Elem()
			curIsPtr = true
		}
	}
	return cur
}

func findField(st *types.Struct, name string) []int {
	for i := 0; i < st.NumFields(); i++ {
		if st.Field(i).Name() == name {
			return []int{i}
		}
	}
	for i := 0; i < st.NumFields(); i++ {
		f := st.Field(i)
		if !f.Embedded() {
			continue
		}
		t := f.Type()
		if p, ok := t.Underlying().(*types.Pointer); ok {
			t = p.Elem()
		}
		if inner, ok := t.Underlying().(*types.Struct); ok {
			if p := findField(inner, name); p != nil {
				return append([]int{i}, p...)
			}
		}
	}
	return nil
}

func (e *specEnv) index(k *ast.IndexExpr) Val {
	c := e.c()
	base := e.expr(k.X)
	idx := e.expr(k.Index)
	switch bt := base.Typ.Underlying().(type) {
	case *types.Slice:
		i := e.fit(idx, types.Typ[types.Int])
		it := c.idxOf(i.T, i.Typ)
		_, h := c.elemHeap(e.state(), bt.Elem())
		el := Select(Select(h, c.slBase(base.T)), c.arith(token.ADD, c.slOff(base.T), it, types.Typ[types.Int]))
		if isGround(el, nil) {
			// a stored element is a value of its Go type (e.g. a byte is in 0..255)
			c.addHyp(c.wellTyped(el, bt.Elem()))
		}
		return Val{T: el, Typ: bt.Elem()}
	case *types.Array:
		i := e.fit(idx, types.Typ[types.Int])
		return Val{T: Select(base.T, c.idxOf(i.T, i.Typ)), Typ: bt.Elem()}
	case *types.Pointer:
		if arr, ok := bt.Elem().Underlying().(*types.Array); ok {
			i := e.fit(idx, types.Typ[types.Int])
			a := e.f.load(e.state(), base)
			return Val{T: Select(a.T, c.idxOf(i.T, i.Typ)), Typ: arr.Elem()}
		}
	case *types.Map:
		kv := e.fit(idx, bt.Key())
		_, _, _, d, v, _ := c.mapHeaps(e.state(), bt)
		kt := e.f.term(kv)
		return Val{T: Ite(Select(Select(d, base.T), kt), Select(Select(v, base.T), kt), c.zero(bt.Elem())), Typ: bt.Elem()}
	case *types.Basic:
		if bt.Info()&types.IsString != 0 {
			i := e.fit(idx, types.Typ[types.Int])
			return Val{T: c.strAt(base.T, c.idxOf(i.T, i.Typ)), Typ: types.Typ[types.Uint8]}
		}
	}
	e.fail("cannot index %s", base.Typ)
	return Val{}
}

func (e *specEnv) sliceExpr(k *ast.SliceExpr) Val {
	c := e.c()
	base := e.expr(k.X)
	intT := types.Typ[types.Int]
	if _, ok := base.Typ.Underlying().(*types.Slice); !ok {
		e.fail("slice expression on non-slice")
	}
	lo := c.idxConst(0)
	hi := c.slLen(base.T)
	if k.Low != nil {
		v := e.fit(e.expr(k.Low), intT)
		lo = c.idxOf(v.T, v.Typ)
	}
	if k.High != nil {
		v := e.fit(e.expr(k.High), intT)
		hi = c.idxOf(v.T, v.Typ)
	}
	return Val{T: c.mkSlice(c.slBase(base.T), c.arith(token.ADD, c.slOff(base.T), lo, intT), c.arith(token.SUB, hi, lo, intT), c.arith(token.SUB, c.slCap(base.T), lo, intT)), Typ: base.Typ}
}

func (e *specEnv) callExpr(k *ast.CallExpr) Val {
	c := e.c()
	boolT := types.Typ[types.Bool]
	intT := types.Typ[types.Int]
	if id, ok := k.Fun.(*ast.Ident); ok {
		switch id.Name {
		case "old":
			n := *e
			n.inOld = true
			return n.expr(k.Args[0])
		case "now":
			// now(e) inside old(..): e is evaluated in the current state (e.g. a
			// ghost variable set during the call used as a key into the old heap)
			n := *e
			n.inOld = false
			return n.expr(k.Args[0])
		case "len":
			v := e.expr(k.Args[0])
			switch t := v.Typ.Underlying().(type) {
			case *types.Slice:
				return Val{T: c.slLen(v.T), Typ: intT}
			case *types.Basic:
				return Val{T: c.strLen(v.T), Typ: intT}
			case *types.Map:
				_, _, _, _, _, l := c.mapHeaps(e.state(), t)
				return Val{T: Ite(Eq(v.T, IntLit(0)), c.idxConst(0), Select(l, v.T)), Typ: intT}
			case *types.Array:
				return Val{T: c.idxConst(t.Len()), Typ: intT}
			case *types.Pointer:
				if arr, ok := t.Elem().Underlying().(*types.Array); ok {
					return Val{T: c.idxConst(arr.Len()), Typ: intT}
				}
			case *types.Chan:
				return e.f.chanLen(v, e.state())
			}
			e.fail("len of %s", v.Typ)
		case "cap":
			v := e.expr(k.Args[0])
			switch v.Typ.Underlying().(type) {
			case *types.Slice:
				return Val{T: c.slCap(v.T), Typ: intT}
			case *types.Chan:
				c.declFun("chan_cap", []*Sort{IntSort}, c.idxSort())
				return Val{T: App("chan_cap", c.idxSort(), v.T), Typ: intT}
			}
			e.fail("cap of %s", v.Typ)
		case "ite":
			cnd := e.boolOf(k.Args[0])
			a, b := e.expr(k.Args[1]), e.expr(k.Args[2])
			a = e.fit(a, b.Typ)
			b = e.fit(b, a.Typ)
			return Val{T: Ite(cnd, e.f.term(a), e.f.term(b)), Typ: a.Typ}
		case "implies":
			return Val{T: Implies(e.boolOf(k.Args[0]), e.boolOf(k.Args[1])), Typ: boolT}
		case "iff":
			return Val{T: Eq(e.boolOf(k.Args[0]), e.boolOf(k.Args[1])), Typ: boolT}
		case "has":
			m := e.expr(k.Args[0])
			mt, ok := m.Typ.Underlying().(*types.Map)
			if !ok {
				e.fail("has() on non-map")
			}
			kv := e.fit(e.expr(k.Args[1]), mt.Key())
			_, _, _, d, _, _ := c.mapHeaps(e.state(), mt)
			return Val{T: And(Not(Eq(m.T, IntLit(0))), Select(Select(d, m.T), e.f.term(kv))), Typ: boolT}
		case "min", "max":
			r := e.expr(k.Args[0])
			for _, a := range k.Args[1:] {
				o := e.expr(a)
				r = e.fit(r, o.Typ)
				o = e.fit(o, r.Typ)
				_, signed, _ := intInfo(r.Typ)
				op := token.LSS
				if id.Name == "max" {
					op = token.GTR
				}
				r = Val{T: Ite(c.cmp(op, o.T, r.T, signed), o.T, r.T), Typ: r.Typ}
			}
			return r
		case "forall", "exists":
			// forall(i, lo, hi, body): i ranges over lo <= i < hi (int)
			if len(k.Args) != 4 {
				e.fail("forall(i, lo, hi, body)")
			}
			name := k.Args[0].(*ast.Ident).Name
			lo := e.fit(e.expr(k.Args[1]), intT)
			hi := e.fit(e.expr(k.Args[2]), intT)
			n := e.clone()
			uniqCounter++
			bv := Var(fmt.Sprintf("%s!b%d", name, uniqCounter), c.idxSort())
			n.vars[name] = Val{T: bv, Typ: intT}
			rng := And(c.cmp(token.LEQ, lo.T, bv, true), c.cmp(token.LSS, bv, hi.T, true))
			body := n.boolOf(k.Args[3])
			if id.Name == "forall" {
				return Val{T: Forall([]*Term{bv}, Implies(rng, body)), Typ: boolT}
			}
			return Val{T: Exists([]*Term{bv}, And(rng, body)), Typ: boolT}
		case "old_objects_unchanged", "old_objects_unchanged_except":
			// old_objects_unchanged(x): every map (slice backing store / struct of
			// x's type) that existed at entry still has its entry contents; only
			// objects allocated by this call may differ
			var v Val
			if at, isType := k.Args[0].(*ast.ArrayType); isType {
				// old_objects_unchanged([]T): the type alone designates the heap
				if t := c.evalType(types.ExprString(at), e.pkg()); t != nil {
					v = Val{Typ: t}
				} else {
					e.fail("unknown type %s", types.ExprString(at))
				}
			} else {
				v = e.expr(k.Args[0])
			}
			top := c.allocTop(e.old)
			r := Var("r!q", IntSort)
			lt := mk("<", BoolSort, r, top)
			if id.Name == "old_objects_unchanged_except" {
				// ... every old object other than x's own backing store
				if _, ok := v.Typ.Underlying().(*types.Slice); !ok || v.T == nil {
					e.fail("old_objects_unchanged_except() needs a slice value")
				}
				lt = And(lt, Not(Eq(r, c.slBase(v.T))))
			}
			switch u := v.Typ.Underlying().(type) {
			case *types.Map:
				_, _, _, d1, v1, l1 := c.mapHeaps(e.st, u)
				_, _, _, d0, v0, l0 := c.mapHeaps(e.old, u)
				return Val{T: Forall([]*Term{r}, Implies(lt, And(Eq(Select(d1, r), Select(d0, r)), Eq(Select(v1, r), Select(v0, r)), Eq(Select(l1, r), Select(l0, r))))), Typ: boolT}
			case *types.Slice:
				_, h1 := c.elemHeap(e.st, u.Elem())
				_, h0 := c.elemHeap(e.old, u.Elem())
				return Val{T: Forall([]*Term{r}, Implies(lt, Eq(Select(h1, r), Select(h0, r)))), Typ: boolT}
			case *types.Pointer:
				if stt, ok := u.Elem().Underlying().(*types.Struct); ok {
					var cs []*Term
					for i := 0; i < stt.NumFields(); i++ {
						_, h1 := c.fieldHeap(e.st, u.Elem(), stt, i)
						_, h0 := c.fieldHeap(e.old, u.Elem(), stt, i)
						cs = append(cs, Eq(Select(h1, r), Select(h0, r)))
					}
					return Val{T: Forall([]*Term{r}, Implies(lt, And(cs...))), Typ: boolT}
				}
			}
			e.fail("old_objects_unchanged() needs a map, slice or pointer to struct")
		case "only_changes":
			// only_changes(m): among all maps (slices) of m's type, only m's own
			// contents differ from the old state -- the frame of a library call
			v := e.expr(k.Args[0])
			switch u := v.Typ.Underlying().(type) {
			case *types.Map:
				_, _, _, d1, v1, l1 := c.mapHeaps(e.st, u)
				_, _, _, d0, v0, l0 := c.mapHeaps(e.old, u)
				r := Var("r!q", IntSort)
				return Val{T: Forall([]*Term{r}, Implies(Not(Eq(r, v.T)), And(Eq(Select(d1, r), Select(d0, r)), Eq(Select(v1, r), Select(v0, r)), Eq(Select(l1, r), Select(l0, r))))), Typ: boolT}
			case *types.Slice:
				_, h1 := c.elemHeap(e.st, u.Elem())
				_, h0 := c.elemHeap(e.old, u.Elem())
				r := Var("r!q", IntSort)
				return Val{T: Forall([]*Term{r}, Implies(Not(Eq(r, c.slBase(v.T))), Eq(Select(h1, r), Select(h0, r)))), Typ: boolT}
			}
			e.fail("only_changes() needs a map or a slice")
		case "alloctop":
			// alloctop(): the allocation frontier at this point - everything
			// allocated from here on has block(x) >= alloctop() (used to say "x
			// was allocated after that point", e.g. in this loop iteration)
			return Val{T: c.allocTop(e.st), Typ: types.Typ[types.Uintptr]}
		case "offset", "block":
			// offset(s) / block(s): position of slice s inside its backing array and
			// the identity of that array (two slices with the same block are views
			// of the same storage)
			v := e.expr(k.Args[0])
			if _, ok := v.Typ.Underlying().(*types.Slice); !ok {
				e.fail("%s() needs a slice", id.Name)
			}
			if id.Name == "offset" {
				return Val{T: c.slOff(v.T), Typ: intT}
			}
			return Val{T: c.slBase(v.T), Typ: types.Typ[types.Uintptr]}
		case "is":
			// is(x, T): interface value x is non-nil and holds a value of dynamic type T
			v := e.expr(k.Args[0])
			t := c.evalType(types.ExprString(k.Args[1]), e.pkg())
			if t == nil {
				e.fail("unknown type in is(): %s", types.ExprString(k.Args[1]))
			}
			if v.T == nil || v.T.Sort != c.ifaceSort() {
				e.fail("is() on a non-interface value")
			}
			return Val{T: And(Not(Eq(v.T, Var("iface_nil", c.ifaceSort()))), Eq(App("iface_type", IntSort, v.T), c.typeID(t))), Typ: boolT}
		case "w128":
			// w128(x): x widened to a 128-bit integer (bv mode) / itself (int mode)
			v := e.fit(e.expr(k.Args[0]), types.Typ[types.Int64])
			if c.mode == ModeInt {
				return Val{T: v.T, Typ: int128T}
			}
			_, signed, _ := intInfo(v.Typ)
			w := v.T.Sort.Width
			op := fmt.Sprintf("(_ zero_extend %d)", 128-w)
			if signed {
				op = fmt.Sprintf("(_ sign_extend %d)", 128-w)
			}
			return Val{T: mk(op, BVSort(128), v.T), Typ: int128T}
		case "visited":
			// visited(k): key k has been produced by the innermost enclosing map range
			return e.visited(k)
		case "fresh":
			// fresh(p): p was allocated during this call
			v := e.expr(k.Args[0])
			ref := v.T
			if _, ok := v.Typ.Underlying().(*types.Slice); ok {
				ref = c.slBase(v.T)
			}
			return Val{T: mk(">=", BoolSort, ref, c.allocTop(e.old)), Typ: boolT}
		}
		// spec function?
		if sf := e.lookupSpecFunc(id.Name); sf != nil {
			return e.callSpecFunc(sf, k.Args)
		}
		// a real, loop-free function of the package used as a pure function
		if pkg := e.pkg(); pkg != nil {
			if fo, ok := pkg.Scope().Lookup(id.Name).(*types.Func); ok {
				if fn := c.prog.SSA.FuncValue(fo); fn != nil && len(fn.Blocks) > 0 && !hasLoops(fn) && len(fn.Params) == len(k.Args) {
					var avs []Val
					for i, a := range k.Args {
						avs = append(avs, e.fit(e.expr(a), fn.Params[i].Type()))
					}
					g := c.newFrame(fn, nil, e.f)
					_, res, _ := g.run(True, e.state().clone(), avs)
					if len(res) == 1 {
						return res[0]
					}
					if len(res) > 1 {
						return Val{Tuple: res}
					}
					e.fail("function %s returns nothing", id.Name)
				}
			}
		}
		// conversion to a named/basic type?
		if t := c.evalType(id.Name, e.pkg()); t != nil && len(k.Args) == 1 {
			return e.convertTo(e.expr(k.Args[0]), t)
		}
		e.fail("unknown function %q in contract", id.Name)
	}
	// conversions like time.Duration(x) / pkg.T(x)
	if sel, ok := k.Fun.(*ast.SelectorExpr); ok && len(k.Args) == 1 {
		if t := c.evalType(types.ExprString(sel), e.pkg()); t != nil {
			return e.convertTo(e.expr(k.Args[0]), t)
		}
	}
	// conversion with a parenthesised type: (*T)(x), ([]byte)(x)
	if pe, ok := k.Fun.(*ast.ParenExpr); ok && len(k.Args) == 1 {
		if t := c.evalType(types.ExprString(pe.X), e.pkg()); t != nil {
			return e.convertTo(e.expr(k.Args[0]), t)
		}
	}
	// pure method call on a value: x.M(args) -> inline the real method
	if sel, ok := k.Fun.(*ast.SelectorExpr); ok {
		return e.methodCall(sel, k.Args)
	}
	e.fail("unsupported call in contract: %s", types.ExprString(k.Fun))
	return Val{}
}

func (e *specEnv) visited(k *ast.CallExpr) Val {
	c := e.c()
	// find the (unique) map range of the function whose visited set is in state
	var name string
	n := 0
	for nm := range e.state() {
		if strings.HasPrefix(nm, "$visited$") && !strings.HasSuffix(nm, "$dom0") {
			n++
			name = nm
		}
	}
	if n > 1 {
		// several map ranges in the function: the one meant is the innermost
		// range whose header dominates the point of evaluation
		name = ""
		best := -1
		for rv, ri := range e.f.rangeOf {
			r, ok := rv.(*ssa.Range)
			if !ok || ri == nil || ri.visited == "" || e.at == nil {
				continue
			}
			if _, inState := e.state()[ri.visited]; !inState {
				continue
			}
			if r.Block() != e.at && !r.Block().Dominates(e.at) {
				continue
			}
			depth := 0
			for b := r.Block(); b != nil; b = b.Idom() {
				depth++
			}
			if depth > best {
				best, name = depth, ri.visited
			}
		}
		if name == "" {
			e.fail("visited(): several map ranges and none dominates this point")
		}
	}
	if name == "" {
		e.fail("visited(): no map range in scope")
	}
	arr := e.state()[name]
	kv := e.expr(k.Args[0])
	if kv.Const != nil {
		kv = e.fit(kv, types.Typ[types.Int])
	}
	_ = c
	return Val{T: Select(arr, e.f.term(kv)), Typ: types.Typ[types.Bool]}
}

func (e *specEnv) convertTo(v Val, t types.Type) Val {
	c := e.c()
	if v.Const != nil && v.T == nil {
		return e.fit(v, t)
	}
	if _, _, ok := intInfo(t); ok {
		if _, _, ok2 := intInfo(v.Typ); ok2 {
			return Val{T: c.convertInt(v.T, v.Typ, t), Typ: t}
		}
	}
	if isFloat(t) {
		if _, signed, ok2 := intInfo(v.Typ); ok2 {
			if c.mode == ModeBV {
				op := "(_ to_fp_unsigned 11 53)"
				if signed {
					op = "(_ to_fp 11 53)"
				}
				return Val{T: mk(op, FP64Sort, Var("RNE", nil), v.T), Typ: t}
			}
			return Val{T: mk("(_ to_fp 11 53)", FP64Sort, Var("RNE", nil), mk("to_real", nil, v.T)), Typ: t}
		}
	}
	if sameSort(c.sortOf(t), e.f.term(v).Sort) {
		return Val{T: e.f.term(v), Typ: t}
	}
	e.fail("unsupported conversion to %s", t)
	return Val{}
}

func (e *specEnv) lookupSpecFunc(name string) *SpecFunc {
	c := e.c()
	if pkg := e.pkg(); pkg != nil {
		if sf := c.specs.SpecFuncs[pkg.Path()+"::"+name]; sf != nil {
			return sf
		}
	}
	for k, sf := range c.specs.SpecFuncs {
		if strings.HasSuffix(k, "::"+name) {
			return sf
		}
	}
	return nil
}

func (e *specEnv) callSpecFunc(sf *SpecFunc, args []ast.Expr) Val {
	if len(args) != len(sf.Params) {
		e.fail("spec func %s expects %d arguments", sf.Name, len(sf.Params))
	}
	if e.depth > 40 {
		e.fail("spec function recursion too deep (%s)", sf.Name)
	}
	n := &specEnv{f: e.f, st: e.st, old: e.old, vars: map[string]Val{}, results: e.results, inOld: e.inOld, depth: e.depth + 1, calleeOf: e.calleeOf, at: nil, pkgT: e.pkgT}
	for i, p := range sf.Params {
		v := e.expr(args[i])
		t := e.c().evalType(p.Type, e.pkg())
		if t != nil {
			v = e.fit(v, t)
			if v.Typ == nil {
				v.Typ = t
			}
		}
		n.vars[p.Name] = v
	}
	if sf.Rec {
		return e.callRecFunc(sf, n)
	}
	if sf.Uninterp {
		c := e.c()
		var sorts []*Sort
		var ts []*Term
		for _, p := range sf.Params {
			t := e.f.term(n.vars[p.Name])
			sorts = append(sorts, t.Sort)
			ts = append(ts, t)
		}
		rt := c.evalType(sf.Result, e.pkg())
		if rt == nil {
			e.fail("unknown result type %q of ufunc %s", sf.Result, sf.Name)
		}
		c.declFun("uf$"+sf.Name, sorts, c.sortOf(rt))
		c.note("uninterpreted specification function " + sf.Name)
		return Val{T: App("uf$"+sf.Name, c.sortOf(rt), ts...), Typ: rt}
	}
	r := n.eval(sf.Body.E)
	if sf.Result != "" {
		if t := e.c().evalType(sf.Result, e.pkg()); t != nil {
			r = e.fit(r, t)
			r.Typ = t
		}
	}
	return r
}

// methodCall inlines a real (pure, loop-free) method of the code as a spec
// expression: the method body is executed symbolically on a copy of the state.
func (e *specEnv) methodCall(sel *ast.SelectorExpr, args []ast.Expr) Val {
	c := e.c()
	recv := e.expr(sel.X)
	if recv.Typ == nil {
		e.fail("method call on untyped value")
	}
	ms := c.prog.SSA.MethodSets.MethodSet(recv.Typ)
	var msel *types.Selection
	for i := 0; i < ms.Len(); i++ {
		if ms.At(i).Obj().Name() == sel.Sel.Name {
			msel = ms.At(i)
		}
	}
	if msel == nil {
		if _, isPtr := recv.Typ.Underlying().(*types.Pointer); !isPtr {
			e.fail("no method %s on %s", sel.Sel.Name, recv.Typ)
		}
		e.fail("no method %s on %s", sel.Sel.Name, recv.Typ)
	}
	fn := c.prog.SSA.MethodValue(msel)
	if fn == nil || len(fn.Blocks) == 0 || hasLoops(fn) {
		e.fail("method %s cannot be used in contracts (no body or has loops)", sel.Sel.Name)
	}
	avs := []Val{recv}
	for i, a := range args {
		v := e.expr(a)
		if i+1 < len(fn.Params) {
			v = e.fit(v, fn.Params[i+1].Type())
		}
		avs = append(avs, v)
	}
	g := c.newFrame(fn, nil, e.f)
	st := e.state().clone()
	nh := len(c.hyps)
	_, res, _ := g.run(True, st, avs)
	_ = nh
	if len(res) == 0 {
		e.fail("method %s returns nothing", sel.Sel.Name)
	}
	if len(res) == 1 {
		return res[0]
	}
	return Val{Tuple: res}
}

// localAt resolves a source-level local variable name at the entry of block at.
func (f *frame) localAt(name string, at *ssa.BasicBlock, st State, upto ssa.Instruction) (Val, bool) {
	// phis of the block first (loop-carried variables); hidden loop counters
	// are spelled with '_' for '.', e.g. rangeint_iter
	for _, in := range at.Instrs {
		phi, ok := in.(*ssa.Phi)
		if !ok {
			break
		}
		if phi.Comment == name || strings.ReplaceAll(phi.Comment, ".", "_") == name {
			return f.get(phi), true
		}
	}
	// (parameters are looked up after the debug references: a parameter that was
	// reassigned has a more recent value)
	// DebugRefs: walk up the dominator chain; the closest block that mentions
	// the variable wins, and within it the last mention.
	var best ssa.Value
	var bestIsAddr bool
	if upto != nil {
		for _, in := range at.Instrs {
			if in == upto {
				break
			}
			if dr, ok := in.(*ssa.DebugRef); ok {
				if id, ok := dr.Expr.(*ast.Ident); ok && id.Name == name {
					best = dr.X
					bestIsAddr = dr.IsAddr
				}
			}
		}
	}
	for b := at.Idom(); b != nil && best == nil; b = b.Idom() {
		var phiCand ssa.Value
		for _, in := range b.Instrs {
			// a variable assigned on only some paths is merged by a phi in a
			// dominating join block: that phi (not the older dominating
			// definition) is its value from there on
			if phi, ok := in.(*ssa.Phi); ok && (phi.Comment == name || strings.ReplaceAll(phi.Comment, ".", "_") == name) {
				phiCand = phi
			}
			if dr, ok := in.(*ssa.DebugRef); ok {
				if id, ok := dr.Expr.(*ast.Ident); ok && id.Name == name {
					best = dr.X
					bestIsAddr = dr.IsAddr
				}
			}
		}
		if best == nil && phiCand != nil {
			best = phiCand
			bestIsAddr = false
		}
	}
	if best != nil {
		v := f.get(best)
		if bestIsAddr {
			return f.load(st, v), true
		}
		return v, true
	}
	for _, p := range f.fn.Params {
		if p.Name() == name {
			return f.get(p), true
		}
	}
	// free variables of closures
	for _, fv := range f.fn.FreeVars {
		if fv.Name() == name {
			v := f.get(fv)
			if _, isPtr := fv.Type().Underlying().(*types.Pointer); isPtr {
				return f.load(st, v), true
			}
			return v, true
		}
	}
	return Val{}, false
}

// ---------- recursive specification functions ----------

type recDef struct {
	heaps  []string // heap names the body reads, in order
	sorts  []*Sort
	result types.Type
}

// callRecFunc: a recursive spec function becomes an SMT define-fun-rec whose
// parameters are the declared parameters followed by the heap arrays its body
// reads; a call passes the current state's arrays.
func (e *specEnv) callRecFunc(sf *SpecFunc, n *specEnv) Val {
	c := e.c()
	if c.recDefs == nil {
		c.recDefs = map[string]*recDef{}
	}
	name := "rec$" + sf.Name
	rd := c.recDefs[name]
	rt := c.evalType(sf.Result, e.pkg())
	if rt == nil {
		e.fail("rec spec func %s needs a result type", sf.Name)
	}
	if rd == nil {
		if c.recBuilding == nil {
			c.recBuilding = map[string]*recDef{}
		}
		if b := c.recBuilding[name]; b != nil {
			// self-call while building the definition: formal heaps are passed on
			var ts []*Term
			for _, p := range sf.Params {
				ts = append(ts, e.f.term(n.vars[p.Name]))
			}
			for i, h := range b.heaps {
				ts = append(ts, Var("hp$"+smtIdent(h), b.sorts[i]))
			}
			return Val{T: App(name, c.sortOf(rt), ts...), Typ: rt}
		}
		// two passes: discover the heaps, then define
		var heaps []string
		var sorts []*Sort
		for pass := 0; pass < 2; pass++ {
			b := &recDef{heaps: heaps, sorts: sorts, result: rt}
			c.recBuilding[name] = b
			tmpl := State{}
			for i, h := range heaps {
				tmpl[h] = Var("hp$"+smtIdent(h), sorts[i])
			}
			env := &specEnv{f: e.f, st: tmpl, old: tmpl, vars: map[string]Val{}, depth: e.depth + 1, calleeOf: e.calleeOf, pkgT: e.pkgT}
			var formals []string
			for _, p := range sf.Params {
				pt := c.evalType(p.Type, e.pkg())
				if pt == nil {
					e.fail("unknown parameter type %q in rec spec func %s", p.Type, sf.Name)
				}
				fv := Var("fp$"+p.Name, c.sortOf(pt))
				env.vars[p.Name] = Val{T: fv, Typ: pt}
				formals = append(formals, fmt.Sprintf("(%s %s)", fv.Op, fv.Sort))
			}
			nh := len(c.hyps)
			body := env.eval(sf.Body.E)
			body = env.fit(body, rt)
			c.hyps = c.hyps[:nh] // definitional side hypotheses of the template are not global facts
			delete(c.recBuilding, name)
			if pass == 0 {
				heaps, sorts = nil, nil
				for _, h := range sortedKeys(tmpl) {
					if h == "$alloc" {
						continue
					}
					heaps = append(heaps, h)
					sorts = append(sorts, tmpl[h].Sort)
				}
				continue
			}
			// rename template heap variables (name@0 created lazily) to formals
			m := map[string]*Term{}
			for i, h := range heaps {
				m[h+"@0"] = Var("hp$"+smtIdent(h), sorts[i])
				formals = append(formals, fmt.Sprintf("(hp$%s %s)", smtIdent(h), sorts[i]))
			}
			bt := subst(e.f.term(body), m)
			c.ensureSort(c.sortOf(rt))
			c.declare(name, fmt.Sprintf("(define-fun-rec %s (%s) %s %s)", name, strings.Join(formals, " "), c.sortOf(rt), bt))
			rd = &recDef{heaps: heaps, sorts: sorts, result: rt}
			c.recDefs[name] = rd
		}
	}
	var ts []*Term
	for _, p := range sf.Params {
		ts = append(ts, e.f.term(n.vars[p.Name]))
	}
	for i, h := range rd.heaps {
		ts = append(ts, c.heapVar(e.state(), h, rd.sorts[i]))
	}
	return Val{T: App(name, c.sortOf(rt), ts...), Typ: rt}
}
