package main

import "golang.org/x/tools/go/ssa"

// ghostsWrittenIn: ghost variables that may be assigned inside the loop body:
// by a site clause attached to a call in the body, or by the exit ghost
// updates of a callee (with a contract) called in the body.
func (f *frame) ghostsWrittenIn(li *loopInfo) map[string]bool {
	out := map[string]bool{}
	for _, b := range f.fn.Blocks {
		if !li.body[b.Index] {
			continue
		}
		for _, in := range b.Instrs {
			ci, ok := in.(ssa.CallInstruction)
			if !ok {
				continue
			}
			cc := ci.Common()
			if f.spec != nil {
				key := callKey(cc)
				ord := -1
				for _, site := range f.spec.Sites {
					if site.Kind == "ghost" && site.Callee == key {
						if ord < 0 {
							ord = siteOrdinal(f.fn, in, key)
						}
						if site.Ord == ord {
							out[site.Ghost] = true
						}
					}
				}
			}
			if cc.StaticCallee() == nil {
				if _, isB := cc.Value.(*ssa.Builtin); !isB {
					// dynamically dispatched call in the loop body
					for _, h := range f.c.modsOfDynamic(f.fn, cc).list() {
						if len(h) > 6 && h[:6] == "ghost$" {
							out[h[6:]] = true
						}
					}
				}
			}
			if callee := cc.StaticCallee(); callee != nil {
				// transitively: ghosts assigned by contracts of functions the callee reaches
				var keep map[string]bool
				if f.c.specOf(callee) == nil {
					keep = f.asyncBoundary(callee)
				}
				for _, h := range f.c.modsOf(callee).list() {
					if len(h) > 6 && h[:6] == "ghost$" && !keep[h[6:]] {
						out[h[6:]] = true
					}
				}
				if sp := f.c.specOf(callee); sp != nil {
					for _, gs := range sp.GhostSets {
						out[gs.Ghost] = true
					}
					// ghosts named in a modifies clause ("ghost x")
					for _, m := range sp.Modifies {
						if len(m) > 6 && m[:6] == "ghost " {
							out[m[6:]] = true
						}
					}
				}
			}
		}
	}
	return out
}

// specGhostWrites: the ghost variables a contract may assign: by a site clause,
// by an exit/entry ghost update, or as declared in its modifies clause.
func specGhostWrites(sp *FuncSpec) []string {
	seen := map[string]bool{}
	var out []string
	add := func(n string) {
		if localGhosts[n] {
			return // private to one invocation: not an effect visible to callers
		}
		if n != "" && !seen[n] {
			seen[n] = true
			out = append(out, n)
		}
	}
	for _, s := range sp.Sites {
		if s.Kind == "ghost" {
			add(s.Ghost)
		}
	}
	for _, s := range sp.GhostSets {
		add(s.Ghost)
	}
	for _, s := range sp.GhostInits {
		add(s.Ghost)
	}
	for _, m := range sp.Modifies {
		if len(m) > 6 && m[:6] == "ghost " {
			add(m[6:])
		}
	}
	return out
}

// localGhosts: ghost variables declared "ghost local" (see spec.go).
var localGhosts = map[string]bool{}
