package main

import (
	"fmt"
	"os"

	"golang.org/x/tools/go/ssa"
)

type ReplayInfo struct {
	Cmd     string
	Output  string
	TestSrc string
}

type extraResult struct {
	n, discharged, violations, known, undecided int
	reports                                     []oblReport
	lines                                       []string
	time                                        float64
	bySolver                                    map[string]int
	assumptions                                 []string
	samples                                     []interface{}
}

func cmdDump(args []string) {
	if len(args) < 2 {
		fmt.Fprintln(os.Stderr, "dump <pkgdir> <funckey>")
		return
	}
	prog, err := loadProgram([]string{args[0]})
	if err != nil {
		fmt.Fprintln(os.Stderr, err)
		return
	}
	for _, p := range prog.Pkgs {
		fn := prog.lookupFunc(p.PkgPath, args[1])
		if fn != nil {
			fn.WriteTo(os.Stdout)
			for _, an := range fn.AnonFuncs {
				an.WriteTo(os.Stdout)
			}
			return
		}
	}
	fmt.Fprintln(os.Stderr, "not found")
}

var _ = ssa.BuilderMode(0)
