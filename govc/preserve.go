package main

import (
	"go/types"
	"strings"

	"golang.org/x/tools/go/ssa"
)

// preservedHeaps: heaps that an abstract call made by the function under
// contract is assumed not to modify ("preserve T.f, ..." in its contract).
// The assumption is closed by a structural obligation of the same subject
// (mapwriters T.f / writers T.f): the listed writers are the only functions
// that write the field (or the map it holds), so a callee that is not one of
// them cannot modify it. A static callee that IS a listed writer is not
// covered (its effect is havocked as usual).
func (f *frame) preservedHeaps(callee *ssa.Function) map[string]bool {
	root := f.root()
	out := map[string]bool{}
	if root.spec == nil || root.spec.Flags["preserve"] == "" {
		return out
	}
	c := f.c
	pkg := pkgOfFn(root.fn)
	for _, item := range strings.Split(root.spec.Flags["preserve"], ",") {
		item = strings.TrimSpace(item)
		i := strings.LastIndex(item, ".")
		if i < 0 {
			continue
		}
		// two-hop item "T.f.g": field g of the (possibly generic, possibly
		// foreign) struct type that field T.f points to / holds, e.g.
		// reentrancyState.requestStates.data for an *xsync.Map[K,V]. The backing
		// obligation is the one on "<that struct's name>.g" (in its own package).
		var hopType types.Type
		subject := item
		if k := strings.LastIndex(item[:i], "."); k >= 0 {
			if ot := c.evalType(item[:k], pkg); ot != nil {
				if ost, ok := ot.Underlying().(*types.Struct); ok {
					for j := 0; j < ost.NumFields(); j++ {
						if ost.Field(j).Name() == item[k+1:i] {
							ft := deref(ost.Field(j).Type())
							if nt, ok := ft.(*types.Named); ok {
								if _, isSt := nt.Underlying().(*types.Struct); isSt {
									hopType = nt
									subject = nt.Obj().Name() + "." + item[i+1:]
								}
							}
						}
					}
				}
			}
		}
		// the structural obligation that backs this assumption
		backed := false
		writer := false
		for _, st := range c.specs.Structs {
			if st.Subject != subject || (st.Kind != "mapwriters" && st.Kind != "writers") {
				continue
			}
			backed = true
			if callee != nil && reachesAny(callee, st.Items, map[*ssa.Function]bool{}, 0) {
				writer = true
			}
		}
		if !backed {
			c.warn = append(c.warn, "SPEC-ERROR preserve "+item+": no structural writers/mapwriters obligation backs it")
			c.specErrors++
			continue
		}
		if writer {
			continue
		}
		t := hopType
		if t == nil {
			t = c.evalType(item[:i], pkg)
		}
		if t == nil {
			continue
		}
		stt, ok := t.Underlying().(*types.Struct)
		if !ok {
			continue
		}
		for j := 0; j < stt.NumFields(); j++ {
			if stt.Field(j).Name() != item[i+1:] {
				continue
			}
			out[c.fieldHeapName(t, stt.Field(j).Name())] = true
			switch u := stt.Field(j).Type().Underlying().(type) {
			case *types.Map:
				for _, n := range mapHeapNames(u) {
					out[n] = true
				}
			case *types.Slice:
				out["E$"+typeName(u.Elem())] = true
			case *types.Struct:
				// a struct-valued field (an embedded buffer): the slices and maps
				// it holds directly belong to it
				for k := 0; k < u.NumFields(); k++ {
					switch w := u.Field(k).Type().Underlying().(type) {
					case *types.Map:
						for _, n := range mapHeapNames(w) {
							out[n] = true
						}
					case *types.Slice:
						out["E$"+typeName(w.Elem())] = true
					}
				}
			}
		}
		if callee == nil {
			c.note("dynamically dispatched calls in " + funcKey(root.fn) + " are assumed to leave " + item + " of every object that exists at the call untouched (an implementation may be one of the listed writers, but then only on objects it allocates itself: ASSUMED, not checked)")
		} else {
			c.note("abstract calls in " + funcKey(root.fn) + " are assumed not to modify " + item + " (closed by the structural writers obligation on that field; other maps of the same Go type are not distinguished)")
		}
	}
	return out
}

// reachesAny: can fn reach (through static calls inside its package, closures
// included) one of the listed writer functions?
func reachesAny(fn *ssa.Function, writers []string, seen map[*ssa.Function]bool, depth int) bool {
	if fn == nil || seen[fn] {
		return false
	}
	seen[fn] = true
	for _, w := range writers {
		if w == funcKey(fn) || w == topKey(fn) {
			return true
		}
	}
	for _, b := range fn.Blocks {
		for _, in := range b.Instrs {
			if _, isGo := in.(*ssa.Go); isGo {
				// `go f(...)`: f runs on another goroutine, not during the call;
				// what it writes concurrently is outside the sequential reading
				// every contract is proved in (stated in DESIGN §10.1)
				continue
			}
			if ci, ok := in.(ssa.CallInstruction); ok {
				// (callees in other packages are followed too when their body is
				// loaded: a field of a type from another root package is written
				// through that package's methods)
				if callee := ci.Common().StaticCallee(); callee != nil && (ssaPkgOf(callee) == ssaPkgOf(fn) || len(callee.Blocks) > 0) {
					if reachesAny(callee, writers, seen, depth+1) {
						return true
					}
				}
			}
			if mc, ok := in.(*ssa.MakeClosure); ok {
				if reachesAny(mc.Fn.(*ssa.Function), writers, seen, depth+1) {
					return true
				}
			}
		}
	}
	return false
}
