package main

// loadTyped loads through a pointer and records that the loaded value is a
// value of its Go type (ranges of sized integers in int mode, reference bounds).
func (f *frame) loadTyped(st State, p Val) Val {
	v := f.load(st, p)
	if v.T != nil && isGround(v.T, nil) {
		f.c.addHyp(f.c.wellTypedIn(v.T, v.Typ, st))
	}
	return v
}
