package main

// modHints returns linear facts about every ground remainder-by-a-symbolic-
// divisor term occurring in fs (see arith(): valid for SMT mod and Go's %).
func modHints(fs []*Term) []*Term {
	seen := map[string]bool{}
	var out []*Term
	var walk func(t *Term)
	walk = func(t *Term) {
		if t.Bound != nil {
			return
		}
		if (t.Op == "mod" || t.Op == "tmod") && len(t.Args) == 2 && t.Sort == IntSort {
			a, b := t.Args[0], t.Args[1]
			if _, isConst := intLitVal(b); !isConst && isGround(t, nil) {
				k := t.String()
				if !seen[k] {
					seen[k] = true
					z := IntLit(0)
					pos := And(mk(">", BoolSort, b, z), mk(">=", BoolSort, a, z))
					out = append(out, Implies(pos, And(mk("<=", BoolSort, z, t), mk("<", BoolSort, t, b),
						Implies(mk("<", BoolSort, a, b), Eq(t, a)),
						Implies(And(mk("<=", BoolSort, b, a), mk("<", BoolSort, a, mk("+", IntSort, b, b))), Eq(t, mk("-", IntSort, a, b))))))
				}
			}
		}
		for _, x := range t.Args {
			walk(x)
		}
	}
	for _, f := range fs {
		walk(f)
	}
	return out
}
