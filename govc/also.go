package main

import "strings"

// curCheckID is the property being checked (names the obligations).
var curCheckID string

// alsoProperty: the contract carries "also <id> [<id>...]" naming property id.
func alsoProperty(sp *FuncSpec, id string) bool {
	for _, f := range strings.Fields(strings.ReplaceAll(sp.Flags["also"], ",", " ")) {
		if f == id {
			return true
		}
	}
	return false
}
