package main

import (
	"context"
	"fmt"
	"math"
	"os"
	"os/exec"
	"path/filepath"
	"regexp"
	"strings"
	"sync"
	"time"
)

func mathFloat64bits(f float64) uint64 { return math.Float64bits(f) }

type solverDef struct {
	name string
	args func(file string, timeoutS int) []string
}

var solvers = []solverDef{
	{"z3-new", func(f string, t int) []string { return []string{"z3-new", "-smt2", fmt.Sprintf("-T:%d", t), f} }},
	{"z3", func(f string, t int) []string { return []string{"z3", "-smt2", fmt.Sprintf("-T:%d", t), f} }},
	{"cvc5", func(f string, t int) []string {
		return []string{"cvc5", fmt.Sprintf("--tlimit=%d", t*1000), "--produce-models", "--full-saturate-quant", f}
	}},
}

// smtText renders one obligation as a standalone SMT-LIB script.
func (c *Ctx) smtText(o *Obligation, modelVars []string) string {
	var sb strings.Builder
	sb.WriteString("; obligation " + o.Name + "\n; kind " + o.Kind + " at " + o.Pos + "\n")
	if o.Clause != nil {
		sb.WriteString("; clause: " + strings.ReplaceAll(o.Clause.Text, "\n", " ") + "\n")
	}
	sb.WriteString("(set-option :produce-models true)\n(set-logic ALL)\n")
	for _, d := range c.decls {
		sb.WriteString(d.Text)
		sb.WriteString("\n")
	}
	for _, h := range c.hyps[:o.NHyps] {
		sb.WriteString("(assert ")
		sb.WriteString(h.String())
		sb.WriteString(")\n")
	}
	for _, h := range o.Extra {
		sb.WriteString("(assert " + h.String() + ")\n")
	}
	sb.WriteString("(assert " + o.PC.String() + ")\n")
	sb.WriteString("(assert (not " + o.Goal.String() + "))\n")
	sb.WriteString("(check-sat)\n")
	if len(modelVars) > 0 {
		sb.WriteString("(get-value (" + strings.Join(modelVars, " ") + "))\n")
	}
	return sb.String()
}

var scalarDeclRe = regexp.MustCompile(`^\(declare-fun (\S+) \(\) (Int|Bool|\(_ BitVec \d+\)|\(_ FloatingPoint 11 53\))\)$`)

// modelVars: scalar inputs worth reporting (parameters and named SSA values).
func (c *Ctx) modelVars() []string {
	var out []string
	for _, d := range c.decls {
		if m := scalarDeclRe.FindStringSubmatch(d.Text); m != nil {
			n := m[1]
			if strings.HasPrefix(n, "in.") || strings.HasPrefix(n, "free.") {
				out = append(out, n)
			}
		}
	}
	return out
}

type solveOpts struct {
	timeoutS int
	all      bool // run every solver and cross-check (thorough)
	workdir  string
	jobs     int
}

func runSolver(ctx context.Context, sd solverDef, file string, timeoutS int) (result, output string, secs float64) {
	args := sd.args(file, timeoutS)
	// at most one solver process per core: queries wait here, not in the solver
	select {
	case procSem <- struct{}{}:
		defer func() { <-procSem }()
	case <-ctx.Done():
		return "unknown", "cancelled", 0
	}
	cctx, cancel := context.WithTimeout(ctx, time.Duration(timeoutS+2)*time.Second)
	defer cancel()
	t0 := time.Now()
	cmd := exec.CommandContext(cctx, args[0], args[1:]...)
	out, _ := cmd.CombinedOutput()
	secs = time.Since(t0).Seconds()
	output = string(out)
	first := strings.TrimSpace(strings.SplitN(strings.TrimSpace(output), "\n", 2)[0])
	switch first {
	case "sat", "unsat", "unknown":
		result = first
	case "timeout":
		result = "timeout"
	default:
		if cctx.Err() != nil {
			result = "timeout"
		} else if strings.Contains(output, "error") || strings.Contains(output, "Error") {
			result = "error"
		} else {
			result = "unknown"
		}
	}
	return
}

// solve discharges one obligation by racing the solvers.
func (c *Ctx) solve(o *Obligation, opts solveOpts) {
	if o.Static {
		return
	}
	if o.Expect == "sat" && opts.timeoutS > 8 && !opts.all {
		// reachability probes are best-effort in the quick tier
		opts.timeoutS = 8
	}
	mv := c.modelVars()
	text := c.smtText(o, mv)
	o.SMT = text
	file := filepath.Join(opts.workdir, smtIdent(strings.ReplaceAll(o.Name, "/", "__"))+".smt2")
	if len(file) > 200 {
		file = file[:200] + ".smt2"
	}
	os.WriteFile(file, []byte(text), 0o644)
	if d := os.Getenv("GOVC_KEEPALL"); d != "" {
		os.MkdirAll(d, 0o755)
		os.WriteFile(filepath.Join(d, filepath.Base(file)), []byte(text), 0o644)
	}
	ctx, cancel := context.WithCancel(context.Background())
	defer cancel()
	type ans struct {
		solver, result, output string
		secs                   float64
		inst                   bool
	}
	// second variant: own skolemisation + instantiation, quantifier-free
	instFile := ""
	{
		// (for reachability probes the variant can only refute: unsat = vacuous)
		if it := c.instantiatedText(o, nil); it != "" {
			instFile = strings.TrimSuffix(file, ".smt2") + ".inst.smt2"
			os.WriteFile(instFile, []byte(it), 0o644)
			defer os.Remove(instFile)
			if d := os.Getenv("GOVC_KEEPINST"); d != "" {
				os.MkdirAll(d, 0o755)
				os.WriteFile(filepath.Join(d, filepath.Base(instFile)), []byte(it), 0o644)
			}
		}
	}
	nruns := len(solvers)
	if instFile != "" {
		nruns += len(solvers)
	}
	ch := make(chan ans, nruns)
	for _, sd := range solvers {
		sd := sd
		go func() {
			r, out, s := runSolver(ctx, sd, file, opts.timeoutS)
			ch <- ans{sd.name, r, out, s, false}
		}()
		if instFile != "" {
			go func() {
				r, out, s := runSolver(ctx, sd, instFile, opts.timeoutS)
				if r == "sat" {
					r = "unknown" // hypotheses were dropped: a model of the variant means nothing
				}
				ch <- ans{sd.name + "+inst", r, out, s, true}
			}()
		}
	}
	var got []ans
	var final *ans
	for i := 0; i < nruns; i++ {
		a := <-ch
		got = append(got, a)
		if a.result == "sat" || a.result == "unsat" {
			if final == nil {
				aa := a
				final = &aa
				if !opts.all {
					cancel()
					break
				}
			} else if final.result != a.result {
				o.Output += fmt.Sprintf("SOLVER DISAGREEMENT: %s says %s, %s says %s\n", final.solver, final.result, a.solver, a.result)
				o.Result = "disagreement"
			}
		}
	}
	if o.Result == "disagreement" {
		return
	}
	if final == nil {
		o.Result = "unknown"
		for _, a := range got {
			o.Output += fmt.Sprintf("[%s %.1fs] %s\n", a.solver, a.secs, firstLines(a.output, 3))
			if a.secs > o.Time {
				o.Time = a.secs
			}
		}
		return
	}
	o.Result, o.Solver, o.Time = final.result, final.solver, final.secs
	o.Output = final.output
	if final.result == "sat" {
		o.Model = parseModel(final.output)
	}
	if o.Result == "unsat" || opts.workdir == "" {
		// keep disk use low: discharged obligations need no file
		os.Remove(file)
	}
}

func firstLines(s string, n int) string {
	ls := strings.Split(strings.TrimSpace(s), "\n")
	if len(ls) > n {
		ls = ls[:n]
	}
	return strings.Join(ls, " | ")
}

var valRe = regexp.MustCompile(`\(\s*([^\s()]+)\s+((?:\(_ bv\d+ \d+\))|(?:#x[0-9a-fA-F]+)|(?:#b[01]+)|(?:\(- \d+\))|(?:-?\d+)|true|false|(?:\(fp [^)]*\)))\s*\)`)

func parseModel(out string) map[string]string {
	m := map[string]string{}
	for _, mm := range valRe.FindAllStringSubmatch(out, -1) {
		m[mm[1]] = mm[2]
	}
	return m
}

func solveAll(c *Ctx, obls []*Obligation, opts solveOpts) {
	var wg sync.WaitGroup
	sem := make(chan struct{}, opts.jobs)
	for _, o := range obls {
		o := o
		wg.Add(1)
		sem <- struct{}{}
		go func() {
			defer wg.Done()
			defer func() { <-sem }()
			c.solve(o, opts)
		}()
	}
	wg.Wait()
}
