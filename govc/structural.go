package main

// Structural obligations (DESIGN §2.6.6): read off the SSA and the static call
// graph of the package, no solver.  They keep invariants closed:
//
//   structural writers T.f: F1, F2      field T.f is written (or its address
//                                       taken) only inside the listed functions
//   structural callers F: G1, G2        F is called (statically) or referenced
//                                       only from the listed functions
//   structural nocall F: pkg.X, pkg.Y   F's static call tree (direct calls,
//                                       in-package callees followed) never
//                                       reaches the listed functions

import (
	"fmt"
	"go/types"
	"path/filepath"
	"sort"
	"strings"

	"golang.org/x/tools/go/ssa"
)

func allFuncsOf(prog *Program, pkgPath string) []*ssa.Function {
	sp := prog.ByPkg[pkgPath]
	if sp == nil {
		return nil
	}
	seen := map[*ssa.Function]bool{}
	var out []*ssa.Function
	var add func(fn *ssa.Function)
	add = func(fn *ssa.Function) {
		if fn == nil || seen[fn] {
			return
		}
		seen[fn] = true
		out = append(out, fn)
		for _, an := range fn.AnonFuncs {
			add(an)
		}
	}
	for _, m := range sp.Members {
		switch x := m.(type) {
		case *ssa.Function:
			add(x)
		case *ssa.Type:
			for _, t := range []types.Type{x.Type(), types.NewPointer(x.Type())} {
				ms := prog.SSA.MethodSets.MethodSet(t)
				for i := 0; i < ms.Len(); i++ {
					fn := prog.SSA.MethodValue(ms.At(i))
					if fn != nil && fn.Pkg == sp && fn.Synthetic == "" {
						add(fn)
					}
				}
			}
			if nt, ok := x.Type().(*types.Named); ok {
				for i := 0; i < nt.NumMethods(); i++ {
					add(prog.SSA.FuncValue(nt.Method(i)))
				}
			}
		}
	}
	sort.Slice(out, func(i, j int) bool { return out[i].String() < out[j].String() })
	return out
}

func topKey(fn *ssa.Function) string {
	for fn.Parent() != nil {
		fn = fn.Parent()
	}
	return funcKey(fn)
}

func runStructural(id string, prog *Program, specs *SpecSet, known *KnownFile) extraResult {
	res := extraResult{bySolver: map[string]int{}}
	for _, st := range specs.Structs {
		if st.Property != id {
			continue
		}
		name := fmt.Sprintf("%s/structural/%s(%s)", id, st.Kind, st.Subject)
		r := oblReport{Name: name, Kind: "structural", Pos: fmt.Sprintf("%s:%d", filepath.Base(st.File), st.Line), Clause: strings.Join(st.Items, ", ")}
		allowed := map[string]bool{}
		for _, it := range st.Items {
			allowed[it] = true
		}
		var offenders []string
		ok := true
		switch st.Kind {
		case "writers":
			i := strings.LastIndex(st.Subject, ".")
			if i < 0 {
				ok = false
				offenders = append(offenders, "bad subject")
				break
			}
			tname, fname := st.Subject[:i], st.Subject[i+1:]
			found := false
			for _, fn := range allFuncsOf(prog, st.PkgPath) {
				for _, b := range fn.Blocks {
					for _, in := range b.Instrs {
						fa, isFA := in.(*ssa.FieldAddr)
						if !isFA {
							continue
						}
						stt, isSt := deref(fa.X.Type()).Underlying().(*types.Struct)
						nt, isNamed := deref(fa.X.Type()).(*types.Named)
						if !isSt || !isNamed || nt.Obj().Name() != tname || stt.Field(fa.Field).Name() != fname {
							continue
						}
						found = true
						// a write, or any use of the address other than a plain load
						for _, ref := range *fa.Referrers() {
							switch u := ref.(type) {
							case *ssa.UnOp:
								// load
							case *ssa.DebugRef:
							case *ssa.Store:
								if u.Addr == fa && !allowed[topKey(fn)] && !allowed[funcKey(fn)] {
									offenders = append(offenders, funcKey(fn))
								}
							case *ssa.FieldAddr, *ssa.IndexAddr:
								// interior address of a struct/array-valued field: conservatively a write
								if !allowed[topKey(fn)] && !allowed[funcKey(fn)] && interiorWritten(u.(ssa.Value)) {
									offenders = append(offenders, funcKey(fn))
								}
							default:
								if isAtomicRead(ref) {
									continue // x.f.Load(): an atomic read through the field's address
								}
								if !allowed[topKey(fn)] && !allowed[funcKey(fn)] {
									offenders = append(offenders, funcKey(fn)+" (address escapes)")
								}
							}
						}
					}
				}
			}
			if !found {
				ok = false
				offenders = append(offenders, "field not found: "+st.Subject)
			}
		case "mapwriters":
			// the map (or slice) held in field T.f is updated only inside the listed
			// functions, the field itself is assigned only there, and the value
			// loaded from the field never escapes anywhere else
			i := strings.LastIndex(st.Subject, ".")
			if i < 0 {
				ok = false
				offenders = append(offenders, "bad subject")
				break
			}
			tname, fname := st.Subject[:i], st.Subject[i+1:]
			found := false
			for _, fn := range allFuncsOf(prog, st.PkgPath) {
				isAllowed := allowed[topKey(fn)] || allowed[funcKey(fn)]
				for _, b := range fn.Blocks {
					for _, in := range b.Instrs {
						fa, isFA := in.(*ssa.FieldAddr)
						if !isFA {
							continue
						}
						stt, isSt := deref(fa.X.Type()).Underlying().(*types.Struct)
						nt, isNamed := deref(fa.X.Type()).(*types.Named)
						if !isSt || !isNamed || nt.Obj().Name() != tname || stt.Field(fa.Field).Name() != fname {
							continue
						}
						found = true
						for _, ref := range *fa.Referrers() {
							switch u := ref.(type) {
							case *ssa.DebugRef:
							case *ssa.Store:
								if u.Addr == fa && !isAllowed {
									offenders = append(offenders, funcKey(fn)+" (assigns the field)")
								}
							case *ssa.UnOp:
								// the loaded map value: every use must be a read, unless allowed
								if isAllowed {
									continue
								}
								for _, why := range readOnlyUses(u, 0) {
									offenders = append(offenders, funcKey(fn)+" ("+why+")")
								}
							default:
								if isAtomicRead(ref) || isReadOnlyContractCall(ref, specs) {
									continue // a read through the field's address (atomic Load, or a method whose verified contract says "modifies nothing")
								}
								if !isAllowed {
									offenders = append(offenders, funcKey(fn)+" (address of the field escapes)")
								}
							}
						}
					}
				}
			}
			if !found {
				ok = false
				offenders = append(offenders, "field not found: "+st.Subject)
			}
		case "perrun-state":
			// perrun-state <label>: F, G, ...  - none of the listed (builder)
			// functions allocates a variable in its own body that one of its nested
			// closures (at any depth) writes. A builder runs once per description
			// (Flow, Source), its inner factory closure once per materialisation:
			// state that the per-element closures update must be created by the
			// factory, not by the builder, or all materialisations share it.
			for _, it := range st.Items {
				fn := prog.lookupFunc(st.PkgPath, it)
				if fn == nil {
					ok = false
					offenders = append(offenders, "function not found: "+it)
					continue
				}
				for _, b := range fn.Blocks {
					for _, in := range b.Instrs {
						mc, isMC := in.(*ssa.MakeClosure)
						if !isMC {
							continue
						}
						cf, _ := mc.Fn.(*ssa.Function)
						if cf == nil {
							continue
						}
						for j, bind := range mc.Bindings {
							al, isAlloc := bind.(*ssa.Alloc)
							if !isAlloc || al.Parent() != fn {
								continue
							}
							if closureWritesFreeVar(cf, j, 0) {
								offenders = append(offenders, fmt.Sprintf("%s allocates %q, which its closure %s (or one nested in it) writes", it, al.Comment, funcKey(cf)))
							}
						}
					}
				}
			}
		case "callers":
			tpkg, tkey := st.PkgPath, st.Subject
			if i := strings.Index(tkey, "::"); i >= 0 {
				tpkg, tkey = tkey[:i], tkey[i+2:]
			}
			target := prog.lookupFunc(tpkg, tkey)
			if target == nil {
				ok = false
				offenders = append(offenders, "function not found: "+st.Subject)
				break
			}
			for _, fn := range allFuncsOf(prog, st.PkgPath) {
				for _, b := range fn.Blocks {
					for _, in := range b.Instrs {
						for _, op := range in.Operands(nil) {
							if op == nil || *op == nil {
								continue
							}
							if f2, isF := (*op).(*ssa.Function); isF && (f2 == target || f2.Origin() == target) {
								if !allowed[topKey(fn)] && !allowed[funcKey(fn)] {
									offenders = append(offenders, funcKey(fn))
								}
							}
						}
					}
				}
			}
		case "mustcall":
			// F's body calls every listed function (directly): an encoder that never
			// reads a component of its input cannot make its output depend on it.
			// The subject may carry a "#label" suffix to split one function's
			// obligations into independently named groups.
			subj := st.Subject
			if i := strings.Index(subj, "#"); i >= 0 {
				subj = subj[:i]
			}
			start := prog.lookupFunc(st.PkgPath, subj)
			if start == nil {
				ok = false
				offenders = append(offenders, "function not found: "+subj)
				break
			}
			called := map[string]bool{}
			for _, b := range start.Blocks {
				for _, in := range b.Instrs {
					if ci, isCall := in.(ssa.CallInstruction); isCall {
						if callee := ci.Common().StaticCallee(); callee != nil {
							called[funcKey(callee)] = true
						} else if ci.Common().IsInvoke() {
							called["invoke "+ci.Common().Method.Name()] = true
						}
					}
				}
			}
			for _, it := range st.Items {
				if !called[it] {
					offenders = append(offenders, "never calls "+it)
				}
			}
		case "nocall":
			start := prog.lookupFunc(st.PkgPath, st.Subject)
			if start == nil {
				ok = false
				offenders = append(offenders, "function not found: "+st.Subject)
				break
			}
			seen := map[*ssa.Function]bool{}
			var walk func(fn *ssa.Function, path string)
			walk = func(fn *ssa.Function, path string) {
				if seen[fn] {
					return
				}
				seen[fn] = true
				for _, b := range fn.Blocks {
					for _, in := range b.Instrs {
						ci, isCall := in.(ssa.CallInstruction)
						if !isCall {
							continue
						}
						callee := ci.Common().StaticCallee()
						if callee == nil {
							continue
						}
						p, k := calleeKeyOf(callee)
						short := p[strings.LastIndex(p, "/")+1:] + "." + k
						if allowed[short] || allowed[p+"."+k] || allowed[k] {
							offenders = append(offenders, path+" -> "+short)
						}
						if len(callee.Blocks) > 0 && ssaPkgOf(callee) == ssaPkgOf(start) {
							walk(callee, path+" -> "+k)
						}
					}
				}
				for _, an := range fn.AnonFuncs {
					walk(an, path+" -> "+an.Name())
				}
			}
			walk(start, st.Subject)
		default:
			ok = false
			offenders = append(offenders, "unknown structural kind "+st.Kind)
		}
		res.n++
		if ok && len(offenders) == 0 {
			res.discharged++
			r.Status, r.Result, r.Solver = "discharged", "holds", "ssa"
			res.bySolver["ssa-structural"]++
		} else {
			sort.Strings(offenders)
			offenders = dedup(offenders)
			if known != nil {
				kf := false
				for _, k := range known.Findings {
					if k.Property == id && k.Obligation == name && k.Witness == strings.Join(offenders, "; ") {
						kf = true
						fmt.Printf("KNOWN-FINDING: property=%s %s (%s)\n", id, k.What, name)
					}
				}
				if kf {
					r.Status, r.Result = "known-finding", "fails: "+strings.Join(offenders, "; ")
					res.known++
					res.n--
					res.reports = append(res.reports, r)
					continue
				}
			}
			r.Status, r.Result = "VIOLATION", "fails: "+strings.Join(offenders, "; ")
			res.violations++
			dir := filepath.Join(verifDir(), "replays", id, smtIdent(strings.ReplaceAll(name, "/", "__")))
			o := &Obligation{Name: name, Kind: "structural", Pos: r.Pos, Result: "fails", Solver: "ssa", Output: "structural obligation fails; offenders: " + strings.Join(offenders, "; ")}
			writeReplayDir(dir, o, false)
			res.lines = append(res.lines, fmt.Sprintf("VIOLATION property=%s replay=%s no-failing-input-found", id, dir))
			fmt.Printf("failed structural obligation %s: %s\n", name, strings.Join(offenders, "; "))
		}
		res.reports = append(res.reports, r)
	}
	return res
}

// interiorWritten: does an interior address (field of a field, element of an
// array field) flow into a store or escape?
func interiorWritten(v ssa.Value) bool {
	refs := v.Referrers()
	if refs == nil {
		return true
	}
	for _, ref := range *refs {
		switch u := ref.(type) {
		case *ssa.UnOp, *ssa.DebugRef:
		case *ssa.Store:
			if u.Addr == v {
				return true
			}
		case *ssa.FieldAddr:
			if interiorWritten(u) {
				return true
			}
		case *ssa.IndexAddr:
			if interiorWritten(u) {
				return true
			}
		case ssa.CallInstruction:
			// passing &x.f.v to a function (atomics): treated as a write
			return true
		default:
			return true
		}
	}
	return false
}

// readOnlyUses: reasons why the uses of map/slice value v are not all reads
// (empty = every use is a read). Sub-slices are followed.
func readOnlyUses(v ssa.Value, depth int) []string {
	var out []string
	refs := v.Referrers()
	if refs == nil || depth > 4 {
		return out
	}
	for _, r2 := range *refs {
		switch w := r2.(type) {
		case *ssa.DebugRef, *ssa.Lookup, *ssa.Range, *ssa.Index:
		case *ssa.IndexAddr:
			if interiorWritten(w) {
				out = append(out, "writes an element")
			}
		case *ssa.MapUpdate:
			out = append(out, "map update")
		case *ssa.Slice:
			out = append(out, readOnlyUses(w, depth+1)...)
		case *ssa.Call:
			if bi, isB := w.Common().Value.(*ssa.Builtin); isB && (bi.Name() == "len" || bi.Name() == "cap") {
				continue
			}
			out = append(out, "passes the map/slice to "+callKey(w.Common()))
		case *ssa.BinOp:
			// comparison with nil
		case *ssa.Phi:
			out = append(out, readOnlyUses(w, depth+1)...)
		default:
			out = append(out, fmt.Sprintf("value escapes through %T", r2))
		}
	}
	return out
}


// closureWritesFreeVar: does closure fn store through its idx-th free variable
// (directly, through an interior address, or by handing it to a nested closure
// that does)?
func closureWritesFreeVar(fn *ssa.Function, idx int, depth int) bool {
	if idx >= len(fn.FreeVars) || depth > 8 {
		return false
	}
	fv := fn.FreeVars[idx]
	var rooted func(v ssa.Value) bool
	rooted = func(v ssa.Value) bool {
		switch x := v.(type) {
		case *ssa.FreeVar:
			return x == fv
		case *ssa.FieldAddr:
			return rooted(x.X)
		case *ssa.IndexAddr:
			return rooted(x.X)
		}
		return false
	}
	for _, b := range fn.Blocks {
		for _, in := range b.Instrs {
			switch x := in.(type) {
			case *ssa.Store:
				if rooted(x.Addr) {
					return true
				}
			case *ssa.MakeClosure:
				cf, _ := x.Fn.(*ssa.Function)
				if cf == nil {
					continue
				}
				for j, bind := range x.Bindings {
					if bind == ssa.Value(fv) && closureWritesFreeVar(cf, j, depth+1) {
						return true
					}
				}
			}
		}
	}
	return false
}
