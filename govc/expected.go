package main

import (
	"go/ast"
	"go/token"
)

// expectedOfClause: for an ensures clause of the shape [A ==>] result == E
// (or E == result) returns the term of E in the post environment, else nil.
func expectedOfClause(env *specEnv, x SExpr) (res *Term) {
	defer func() {
		if r := recover(); r != nil {
			if _, ok := r.(specError); ok {
				res = nil
				return
			}
			panic(r)
		}
	}()
	for {
		im, ok := x.(*SImpl)
		if !ok {
			break
		}
		x = im.B
	}
	g, ok := x.(*SGo)
	if !ok {
		return nil
	}
	e := g.E
	for {
		p, ok := e.(*ast.ParenExpr)
		if !ok {
			break
		}
		e = p.X
	}
	be, ok := e.(*ast.BinaryExpr)
	if !ok || be.Op != token.EQL {
		return nil
	}
	isResult := func(n ast.Expr) bool {
		id, ok := n.(*ast.Ident)
		return ok && (id.Name == "result" || id.Name == "result0")
	}
	var other ast.Expr
	switch {
	case isResult(be.X):
		other = be.Y
	case isResult(be.Y):
		other = be.X
	default:
		return nil
	}
	if len(env.results) == 0 {
		return nil
	}
	v := env.expr(other)
	v = env.fit(v, env.results[0].Typ)
	return env.f.term(v)
}
