package main

// nameIfBig introduces a named constant for a large term so that the printed
// queries stay linear in the size of the function (states are merged at every
// join and would otherwise be duplicated at each use).
func (c *Ctx) nameIfBig(prefix string, t *Term) *Term {
	if t == nil || len(t.Args) == 0 || termSize(t) <= 12 || !isGround(t, nil) {
		return t
	}
	n := c.fresh(prefix, t.Sort)
	c.addHyp(Eq(n, t))
	return n
}
