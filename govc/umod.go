package main

// abstractSymbolicMod replaces every remainder/quotient by a NON-constant
// divisor with an uninterpreted function (utmod/utdiv/umod/udiv).  This is an
// over-approximation (any model of the original is a model of the abstraction),
// so an `unsat` of the abstracted script is an `unsat` of the original; it is
// used only in the instantiated variant, whose `sat` answers are discarded
// anyway.  The linear facts of modHints() carry what the proofs need about ring
// indices, and the solvers stay inside linear arithmetic.
func abstractSymbolicMod(t *Term, used map[string]bool) *Term {
	if t == nil {
		return nil
	}
	changed := false
	args := make([]*Term, len(t.Args))
	for i, a := range t.Args {
		args[i] = abstractSymbolicMod(a, used)
		if args[i] != a {
			changed = true
		}
	}
	op := t.Op
	if (op == "tmod" || op == "tdiv" || op == "mod" || op == "div") && len(t.Args) == 2 && t.Sort == IntSort {
		if _, isConst := intLitVal(t.Args[1]); !isConst {
			op = "u" + op
			used[op] = true
			changed = true
		}
	}
	if !changed {
		return t
	}
	return &Term{Op: op, Args: args, Sort: t.Sort, Bound: t.Bound, Pats: t.Pats}
}
