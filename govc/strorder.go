package main

import "go/token"

// strCmp: lexicographic comparison of Go strings. In the default (opaque
// string) mode the order is an uninterpreted strict total order.
func (c *Ctx) strCmp(op token.Token, a, b *Term) *Term {
	if c.strMode {
		switch op {
		case token.LSS:
			return mk("str.<", BoolSort, a, b)
		case token.GTR:
			return mk("str.<", BoolSort, b, a)
		case token.LEQ:
			return mk("str.<=", BoolSort, a, b)
		default:
			return mk("str.<=", BoolSort, b, a)
		}
	}
	ss := c.strSort()
	if !c.declared["str_lt"] {
		c.declFun("str_lt", []*Sort{ss, ss}, BoolSort)
		x, y, z := Var("x!q", ss), Var("y!q", ss), Var("z!q", ss)
		lt := func(p, q *Term) *Term { return App("str_lt", BoolSort, p, q) }
		c.addHyp(Forall([]*Term{x}, Not(lt(x, x))))
		c.addHyp(Forall([]*Term{x, y}, Or(Eq(x, y), lt(x, y), lt(y, x))))
		c.addHyp(Forall([]*Term{x, y}, Not(And(lt(x, y), lt(y, x)))))
		c.addHyp(Forall([]*Term{x, y, z}, Implies(And(lt(x, y), lt(y, z)), lt(x, z))))
	}
	lt := func(p, q *Term) *Term { return App("str_lt", BoolSort, p, q) }
	switch op {
	case token.LSS:
		return lt(a, b)
	case token.GTR:
		return lt(b, a)
	case token.LEQ:
		return Not(lt(b, a))
	default:
		return Not(lt(a, b))
	}
}
