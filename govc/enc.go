package main

// Encoding of Go values and the heap into SMT (DESIGN §2.3-2.5).

import (
	"fmt"
	"go/constant"
	"go/token"
	"go/types"
	"math/big"
	"regexp"
	"strings"
)

type Mode int

const (
	ModeBV Mode = iota
	ModeInt
)

// Val is a symbolic Go value.
type Val struct {
	T     *Term       // scalar / ref / slice / struct value
	P     *Ptr        // interior pointer (field address, element address, local cell)
	Tuple []Val       // multi-value
	Typ   types.Type  // Go type (may be nil for untyped spec constants)
	Const *big.Int    // untyped integer constant in spec expressions
	Fn    interface{} // function value (ssa.Value) when statically known
}

type PtrKind int

const (
	PField PtrKind = iota // &base.f     (base: Val of pointer-to-struct)
	PIndex                // &arr[i] where arr is itself addressed by Base (pointer to array), or slice element
	PCell                 // pointer to a cell of type Elem at Ref base (P$τ heap)
	PSliceElem            // &s[i], Base.T is the slice term
	PGlobal               // &global
)

type Ptr struct {
	Kind  PtrKind
	Base  *Val
	Field int
	Idx   *Term
	Elem  types.Type // pointee type
	Name  string     // global name
	Glob  interface{} // *ssa.Global for PGlobal
}

type State map[string]*Term

func (s State) clone() State {
	n := make(State, len(s))
	for k, v := range s {
		n[k] = v
	}
	return n
}

type Decl struct {
	Name string
	Text string
}

// Ctx accumulates declarations, hypotheses and obligations for one VC run.
type Ctx struct {
	prog     *Program
	specs    *SpecSet
	mode     Mode
	strMode  bool
	decls    []Decl
	declared map[string]bool
	hyps     []*Term
	obls     []*Obligation
	nfresh   int
	heapSort map[string]*Sort
	assume   map[string]bool // assumptions / abstractions used (for evidence)
	structs  map[string]*types.Struct
	strConst map[string]*Term
	checkOvf bool
	warn     []string
	curProp  string
	specErrors int
	staleContract bool // a clause names a variable that no longer exists
	cands      []*Term // instantiation candidates: integer parameters, loop counters (and +1)
	recDefs    map[string]*recDef
	recBuilding map[string]*recDef
	typePos    token.Pos // a position inside the function under contract (resolves its type parameters)
	closedHeap bool      // emit the closed-heap axioms (only contracts that reason about freshness need them)
}

// addCand registers an integer-valued program variable as an instantiation
// candidate for quantified hypotheses (see inst.go).
func (c *Ctx) addCand(v *Term, t types.Type) {
	if _, _, ok := intInfo(t); !ok || v == nil {
		return
	}
	c.cands = append(c.cands, v, c.arith(token.ADD, v, c.intConst(big.NewInt(1), t), t))
}

type Obligation struct {
	Name   string
	Kind   string // ensures | requires | invariant-entry | invariant-preserved | no-panic | assert | vacuity | lemma | structural
	Func   string
	NHyps  int
	PC     *Term
	Goal   *Term
	Pos    string
	Expect string // "unsat" (default: goal valid) or "sat" (vacuity/reachability probes)
	Clause *Clause
	// filled by the solver
	Result  string
	Solver  string
	Time    float64
	Model   map[string]string
	SMT     string
	Output  string
	Static  bool // decided without a solver
	Replay  *ReplayInfo
	Extra   []*Term // extra hypotheses local to this obligation
	Decls   []Decl  // snapshot of declarations
	Hyps    []*Term // snapshot
	Bounded string
	Expected *Term // for ensures of the shape [A ==>] result == E: the term E (replay compares against it)
}

func newCtx(prog *Program, specs *SpecSet, mode Mode) *Ctx {
	return &Ctx{prog: prog, specs: specs, mode: mode, declared: map[string]bool{}, heapSort: map[string]*Sort{},
		assume: map[string]bool{}, structs: map[string]*types.Struct{}, strConst: map[string]*Term{}}
}

var identRe = regexp.MustCompile(`[^A-Za-z0-9_.$]`)

func smtIdent(s string) string {
	s = identRe.ReplaceAllString(s, "_")
	return s
}

func (c *Ctx) declare(name, text string) {
	if c.declared[name] {
		return
	}
	c.declared[name] = true
	c.decls = append(c.decls, Decl{name, text})
}

func (c *Ctx) declConst(name string, s *Sort) *Term {
	c.ensureSort(s)
	c.declare(name, fmt.Sprintf("(declare-fun %s () %s)", name, s))
	return Var(name, s)
}

func (c *Ctx) declFun(name string, args []*Sort, res *Sort) {
	for _, a := range args {
		c.ensureSort(a)
	}
	c.ensureSort(res)
	var as []string
	for _, a := range args {
		as = append(as, a.String())
	}
	c.declare(name, fmt.Sprintf("(declare-fun %s (%s) %s)", name, strings.Join(as, " "), res))
}

func (c *Ctx) ensureSort(s *Sort) {
	switch s.Kind {
	case SArray:
		c.ensureSort(s.Key)
		c.ensureSort(s.Elem)
	case SNamed:
		if !c.declared["sort:"+s.Name] {
			if s.Name == "Slice" {
				c.sliceSort()
				return
			}
			c.declared["sort:"+s.Name] = true
			c.decls = append(c.decls, Decl{"sort:" + s.Name, fmt.Sprintf("(declare-sort %s 0)", s.Name)})
		}
	}
}

func (c *Ctx) fresh(prefix string, s *Sort) *Term {
	c.nfresh++
	return c.declConst(fmt.Sprintf("%s!%d", smtIdent(prefix), c.nfresh), s)
}

func (c *Ctx) addHyp(t *Term) {
	if t == nil || isTrue(t) {
		return
	}
	// a side fact produced while evaluating under a contract quantifier mentions
	// that quantifier's bound variable: it means nothing globally, drop it
	// (fewer hypotheses is always sound)
	fc := map[string]*Sort{}
	freeConsts(t, fc, map[string]bool{})
	for n := range fc {
		if i := strings.LastIndex(n, "!b"); i > 0 && !strings.ContainsAny(n[i+2:], "abcdefghijklmnopqrstuvwxyz.$") {
			return
		}
	}
	c.hyps = append(c.hyps, t)
}

func (c *Ctx) note(a string) { c.assume[a] = true }

// ---------- sorts ----------

var RefSort = IntSort

func (c *Ctx) intSort(w int) *Sort {
	if c.mode == ModeBV {
		return BVSort(w)
	}
	return IntSort
}

func (c *Ctx) idxSort() *Sort { return c.intSort(64) }

func (c *Ctx) sliceSort() *Sort {
	s := NamedSort("Slice")
	if !c.declared["sort:Slice"] {
		c.declared["sort:Slice"] = true
		is := c.idxSort().String()
		c.decls = append(c.decls, Decl{"sort:Slice", fmt.Sprintf("(declare-datatypes ((Slice 0)) (((mk_slice (sl_base Int) (sl_off %s) (sl_len %s) (sl_cap %s)))))", is, is, is)})
	}
	return s
}

func (c *Ctx) strSort() *Sort {
	if c.strMode {
		return StringSort
	}
	s := NamedSort("Str")
	if !c.declared["sort:Str"] {
		c.declared["sort:Str"] = true
		c.decls = append(c.decls, Decl{"sort:Str", "(declare-sort Str 0)"})
		c.declFun("str_len", []*Sort{s}, c.idxSort())
	}
	return s
}

func (c *Ctx) ifaceSort() *Sort {
	s := NamedSort("Iface")
	if !c.declared["sort:Iface"] {
		c.declared["sort:Iface"] = true
		c.decls = append(c.decls, Decl{"sort:Iface", "(declare-sort Iface 0)"})
		c.declare("iface_nil", "(declare-fun iface_nil () Iface)")
		c.declFun("iface_type", []*Sort{s}, IntSort)
	}
	return s
}

// int128T is a specification-only wide integer type (see w128 in contracts).
var int128T = types.NewNamed(types.NewTypeName(0, nil, "int128", nil), types.Typ[types.Int64], nil)

func intInfo(t types.Type) (width int, signed bool, ok bool) {
	if t == int128T {
		return 128, true, true
	}
	if t == nil {
		return 0, false, false
	}
	b, isB := t.Underlying().(*types.Basic)
	if !isB {
		return 0, false, false
	}
	switch b.Kind() {
	case types.Int, types.Int64:
		return 64, true, true
	case types.Int32:
		return 32, true, true
	case types.Int16:
		return 16, true, true
	case types.Int8:
		return 8, true, true
	case types.Uint, types.Uint64, types.Uintptr:
		return 64, false, true
	case types.Uint32:
		return 32, false, true
	case types.Uint16:
		return 16, false, true
	case types.Uint8:
		return 8, false, true
	case types.UntypedInt, types.UntypedRune:
		return 64, true, true
	}
	return 0, false, false
}

func typeName(t types.Type) string {
	s := types.TypeString(t, func(p *types.Package) string {
		// runtime-internal twins of public packages (internal/sync vs sync) get a
		// distinct prefix; everything else is named by its package name
		if strings.HasPrefix(p.Path(), "internal/") {
			return "i" + p.Name()
		}
		// a third-party / module package that shares its name with a standard
		// library package (go.uber.org/atomic vs sync/atomic) must not share
		// its sort and heap names
		if stdlibTwin[p.Name()] {
			if first := strings.SplitN(p.Path(), "/", 2)[0]; strings.Contains(first, ".") {
				return "x" + p.Name()
			}
		}
		return p.Name()
	})
	return smtIdent(s)
}

func (c *Ctx) sortOf(t types.Type) *Sort {
	if t == nil {
		return IntSort
	}
	switch u := t.Underlying().(type) {
	case *types.Basic:
		if u.Info()&types.IsBoolean != 0 {
			return BoolSort
		}
		if w, _, ok := intInfo(t); ok {
			return c.intSort(w)
		}
		if u.Info()&types.IsFloat != 0 {
			return FP64Sort
		}
		if u.Info()&types.IsString != 0 {
			return c.strSort()
		}
		if u.Kind() == types.UnsafePointer || u.Kind() == types.UntypedNil {
			return RefSort
		}
		return IntSort
	case *types.Pointer, *types.Map, *types.Chan, *types.Signature:
		return RefSort
	case *types.Slice:
		return c.sliceSort()
	case *types.Array:
		return ArraySort(c.idxSort(), c.sortOf(u.Elem()))
	case *types.Struct:
		return c.structSort(t, u)
	case *types.Interface:
		if _, isTP := t.(*types.TypeParam); isTP {
			s := NamedSort("TP_" + typeName(t))
			c.ensureSort(s)
			return s
		}
		return c.ifaceSort()
	case *types.Tuple:
		return IntSort
	}
	return IntSort
}

func (c *Ctx) structName(t types.Type) string {
	if _, ok := t.(*types.Named); ok {
		return typeName(t)
	}
	if a, ok := t.(*types.Alias); ok {
		return c.structName(types.Unalias(a))
	}
	return "anon_" + typeName(t)
}

func (c *Ctx) structSort(t types.Type, st *types.Struct) *Sort {
	name := "S_" + c.structName(t)
	s := NamedSort(name)
	if c.declared["sort:"+name] {
		return s
	}
	c.declared["sort:"+name] = true // before recursion (recursive structs only through pointers)
	c.structs[name] = st
	var fs []string
	for i := 0; i < st.NumFields(); i++ {
		fsort := c.sortOf(st.Field(i).Type())
		fs = append(fs, fmt.Sprintf("(%s_%s %s)", name, fieldSmt(st, i), fsort))
	}
	if len(fs) == 0 {
		fs = append(fs, fmt.Sprintf("(%s__dummy Bool)", name))
	}
	c.decls = append(c.decls, Decl{"sort:" + name, fmt.Sprintf("(declare-datatypes ((%s 0)) (((mk_%s %s))))", name, name, strings.Join(fs, " "))})
	return s
}

func (c *Ctx) structField(t types.Type, st *types.Struct, v *Term, i int) *Term {
	name := "S_" + c.structName(t)
	return App(fmt.Sprintf("%s_%s", name, fieldSmt(st, i)), c.sortOf(st.Field(i).Type()), v)
}

func (c *Ctx) mkStruct(t types.Type, st *types.Struct, fields []*Term) *Term {
	s := c.structSort(t, st)
	if st.NumFields() == 0 {
		return App("mk_"+s.Name, s, True)
	}
	return App("mk_"+s.Name, s, fields...)
}

// ---------- integer arithmetic ----------

func (c *Ctx) intConst(v *big.Int, t types.Type) *Term {
	w, _, ok := intInfo(t)
	if !ok {
		w = 64
	}
	if c.mode == ModeBV {
		return BVLit(v, w)
	}
	return BigIntLit(v)
}

func (c *Ctx) idxConst(v int64) *Term {
	if c.mode == ModeBV {
		return BVLit(big.NewInt(v), 64)
	}
	return IntLit(v)
}

// typeRange returns the constraint "v is a value of integer type t" (int mode).
func (c *Ctx) typeRange(v *Term, t types.Type) *Term {
	if c.mode == ModeBV || t == nil {
		return True
	}
	w, signed, ok := intInfo(t)
	if !ok {
		return True
	}
	lo, hi := new(big.Int), new(big.Int)
	if signed {
		lo.Neg(new(big.Int).Lsh(big.NewInt(1), uint(w-1)))
		hi.Sub(new(big.Int).Lsh(big.NewInt(1), uint(w-1)), big.NewInt(1))
	} else {
		hi.Sub(new(big.Int).Lsh(big.NewInt(1), uint(w)), big.NewInt(1))
	}
	return And(mk("<=", BoolSort, BigIntLit(lo), v), mk("<=", BoolSort, v, BigIntLit(hi)))
}

// wellTyped returns the constraints implied by a value of Go type t.
func (c *Ctx) wellTyped(v *Term, t types.Type) *Term {
	if t == nil {
		return True
	}
	switch u := t.Underlying().(type) {
	case *types.Basic:
		if u.Info()&types.IsString != 0 && !c.strMode {
			return c.cmp(token.GEQ, App("str_len", c.idxSort(), v), c.idxConst(0), true)
		}
		return c.typeRange(v, t)
	case *types.Slice:
		z := c.idxConst(0)
		l, cp, off := c.slLen(v), c.slCap(v), c.slOff(v)
		return And(c.typeRange(cp, types.Typ[types.Int]), c.typeRange(off, types.Typ[types.Int]),
			c.cmp(token.LEQ, z, l, true), c.cmp(token.LEQ, l, cp, true), c.cmp(token.LEQ, z, off, true),
			Implies(Eq(c.slBase(v), IntLit(0)), And(Eq(l, z), Eq(cp, z))), mk(">=", BoolSort, c.slBase(v), IntLit(0)))
	case *types.Pointer, *types.Map, *types.Chan:
		return mk(">=", BoolSort, v, IntLit(0))
	}
	return True
}

func (c *Ctx) slBase(s *Term) *Term { return App("sl_base", IntSort, s) }
func (c *Ctx) slOff(s *Term) *Term  { return App("sl_off", c.idxSort(), s) }
func (c *Ctx) slLen(s *Term) *Term  { return App("sl_len", c.idxSort(), s) }
func (c *Ctx) slCap(s *Term) *Term  { return App("sl_cap", c.idxSort(), s) }
func (c *Ctx) mkSlice(base, off, l, cp *Term) *Term {
	return App("mk_slice", c.sliceSort(), base, off, l, cp)
}

func (c *Ctx) prelude() {
	if c.mode == ModeInt && !c.declared["tdiv"] {
		c.declare("tdiv", "(define-fun tdiv ((a Int) (b Int)) Int (ite (>= a 0) (div a b) (- (div (- a) b))))")
		c.declare("tmod", "(define-fun tmod ((a Int) (b Int)) Int (- a (* b (tdiv a b))))")
	}
}

func (c *Ctx) arith(op token.Token, a, b *Term, t types.Type) *Term {
	w, signed, _ := intInfo(t)
	if a.Sort.Kind == SFP64 {
		rm := Var("RNE", nil)
		switch op {
		case token.ADD:
			return mk("fp.add", FP64Sort, rm, a, b)
		case token.SUB:
			return mk("fp.sub", FP64Sort, rm, a, b)
		case token.MUL:
			return mk("fp.mul", FP64Sort, rm, a, b)
		case token.QUO:
			return mk("fp.div", FP64Sort, rm, a, b)
		}
		panic("unsupported float op " + op.String())
	}
	if c.mode == ModeBV {
		s := a.Sort
		switch op {
		case token.ADD:
			return mk("bvadd", s, a, b)
		case token.SUB:
			return mk("bvsub", s, a, b)
		case token.MUL:
			return mk("bvmul", s, a, b)
		case token.QUO:
			if signed {
				return mk("bvsdiv", s, a, b)
			}
			return mk("bvudiv", s, a, b)
		case token.REM:
			if signed {
				return mk("bvsrem", s, a, b)
			}
			return mk("bvurem", s, a, b)
		case token.AND:
			return mk("bvand", s, a, b)
		case token.OR:
			return mk("bvor", s, a, b)
		case token.XOR:
			return mk("bvxor", s, a, b)
		case token.AND_NOT:
			return mk("bvand", s, a, mk("bvnot", s, b))
		case token.SHL, token.SHR:
			// shift count b may have another width; it is unsigned or checked non-negative by Go
			bw := b.Sort.Width
			var cnt *Term
			switch {
			case bw == w:
				cnt = b
			case bw < w:
				cnt = mk(fmt.Sprintf("(_ zero_extend %d)", w-bw), s, b)
			default:
				// saturate: if b >= w then result is 0 / sign fill; use ite
				tooBig := mk("bvuge", BoolSort, b, BVLit(new(big.Int).SetInt64(int64(w)), bw))
				low := mk(fmt.Sprintf("(_ extract %d 0)", w-1), s, b)
				cnt = Ite(tooBig, BVLit(new(big.Int).SetInt64(int64(w)), w), low)
			}
			if op == token.SHL {
				return mk("bvshl", s, a, cnt)
			}
			if signed {
				return mk("bvashr", s, a, cnt)
			}
			return mk("bvlshr", s, a, cnt)
		}
		panic("unsupported bv op " + op.String())
	}
	c.prelude()
	switch op {
	case token.ADD:
		return mk("+", IntSort, a, b)
	case token.SUB:
		return mk("-", IntSort, a, b)
	case token.MUL:
		return mk("*", IntSort, a, b)
	case token.QUO:
		if !signed {
			return mk("div", IntSort, a, b)
		}
		return mk("tdiv", IntSort, a, b)
	case token.REM:
		var r *Term
		if !signed {
			r = mk("mod", IntSort, a, b)
		} else {
			r = mk("tmod", IntSort, a, b)
		}
		if _, isConst := intLitVal(b); !isConst && isGround(a, nil) && isGround(b, nil) {
			// linear facts about a remainder by a symbolic divisor (valid for
			// SMT mod and for Go's truncated %), so that the solvers need no
			// nonlinear reasoning for ring indices
			z := IntLit(0)
			pos := And(mk(">", BoolSort, b, z), mk(">=", BoolSort, a, z))
			c.addHyp(Implies(pos, And(mk("<=", BoolSort, z, r), mk("<", BoolSort, r, b),
				Implies(mk("<", BoolSort, a, b), Eq(r, a)),
				Implies(And(mk("<=", BoolSort, b, a), mk("<", BoolSort, a, mk("+", IntSort, b, b))), Eq(r, mk("-", IntSort, a, b))))))
		}
		return r
	case token.SHL:
		if k, ok := intLitVal(b); ok && k >= 0 && k < 64 {
			return mk("*", IntSort, a, BigIntLit(new(big.Int).Lsh(big.NewInt(1), uint(k))))
		}
		c.declFun("shl", []*Sort{IntSort, IntSort}, IntSort)
		c.note("int-mode shift by a non-constant is an uninterpreted function")
		return mk("shl", IntSort, a, b)
	case token.SHR:
		if k, ok := intLitVal(b); ok && k >= 0 && k < 64 {
			return mk("div", IntSort, a, BigIntLit(new(big.Int).Lsh(big.NewInt(1), uint(k))))
		}
		c.declFun("shr", []*Sort{IntSort, IntSort}, IntSort)
		c.note("int-mode shift by a non-constant is an uninterpreted function")
		return mk("shr", IntSort, a, b)
	case token.AND:
		if k, ok := intLitVal(b); ok && k >= 0 && (k&(k+1)) == 0 {
			return mk("mod", IntSort, a, IntLit(k+1))
		}
		if k, ok := intLitVal(a); ok && k >= 0 && (k&(k+1)) == 0 {
			return mk("mod", IntSort, b, IntLit(k+1))
		}
		fallthrough
	case token.OR, token.XOR, token.AND_NOT:
		name := map[token.Token]string{token.AND: "bit_and", token.OR: "bit_or", token.XOR: "bit_xor", token.AND_NOT: "bit_andnot"}[op]
		c.declFun(name, []*Sort{IntSort, IntSort}, IntSort)
		c.note("int-mode bitwise operators are uninterpreted functions")
		return mk(name, IntSort, a, b)
	}
	panic("unsupported int op " + op.String())
}

func intLitVal(t *Term) (int64, bool) {
	if len(t.Args) == 0 && t.Sort == IntSort {
		var v int64
		if _, err := fmt.Sscanf(t.Op, "%d", &v); err == nil && fmt.Sprint(v) == t.Op {
			return v, true
		}
	}
	return 0, false
}

func (c *Ctx) cmp(op token.Token, a, b *Term, signed bool) *Term {
	if op == token.EQL {
		return Eq(a, b)
	}
	if op == token.NEQ {
		return Not(Eq(a, b))
	}
	if a.Sort.Kind == SFP64 {
		m := map[token.Token]string{token.LSS: "fp.lt", token.LEQ: "fp.leq", token.GTR: "fp.gt", token.GEQ: "fp.geq"}
		return mk(m[op], BoolSort, a, b)
	}
	if a.Sort.Kind == SBV {
		var m map[token.Token]string
		if signed {
			m = map[token.Token]string{token.LSS: "bvslt", token.LEQ: "bvsle", token.GTR: "bvsgt", token.GEQ: "bvsge"}
		} else {
			m = map[token.Token]string{token.LSS: "bvult", token.LEQ: "bvule", token.GTR: "bvugt", token.GEQ: "bvuge"}
		}
		return mk(m[op], BoolSort, a, b)
	}
	m := map[token.Token]string{token.LSS: "<", token.LEQ: "<=", token.GTR: ">", token.GEQ: ">="}
	return mk(m[op], BoolSort, a, b)
}

// convertInt converts integer term v of Go type from to Go type to.
func (c *Ctx) convertInt(v *Term, from, to types.Type) *Term {
	fw, fs, ok1 := intInfo(from)
	tw, ts, ok2 := intInfo(to)
	if !ok1 || !ok2 {
		return v
	}
	if c.mode == ModeBV {
		switch {
		case tw == fw:
			return v
		case tw < fw:
			return mk(fmt.Sprintf("(_ extract %d 0)", tw-1), BVSort(tw), v)
		default:
			if fs {
				return mk(fmt.Sprintf("(_ sign_extend %d)", tw-fw), BVSort(tw), v)
			}
			return mk(fmt.Sprintf("(_ zero_extend %d)", tw-fw), BVSort(tw), v)
		}
	}
	// int mode: value-preserving when it fits, else wrap
	fits := (fs == ts && tw >= fw) || (!fs && ts && tw > fw)
	if fits {
		return v
	}
	m := new(big.Int).Lsh(big.NewInt(1), uint(tw))
	u := mk("mod", IntSort, v, BigIntLit(m))
	if !ts {
		return u
	}
	half := new(big.Int).Lsh(big.NewInt(1), uint(tw-1))
	return Ite(mk("<", BoolSort, u, BigIntLit(half)), u, mk("-", IntSort, u, BigIntLit(m)))
}

// idxOf converts an integer value of any Go integer type to the index sort (int).
func (c *Ctx) idxOf(v *Term, t types.Type) *Term {
	return c.convertInt(v, t, types.Typ[types.Int])
}

func (c *Ctx) constVal(cv constant.Value, t types.Type) *Term {
	switch u := t.Underlying().(type) {
	case *types.Basic:
		switch {
		case u.Info()&types.IsBoolean != 0:
			if constant.BoolVal(cv) {
				return True
			}
			return False
		case u.Info()&types.IsInteger != 0:
			bi, _ := new(big.Int).SetString(constant.ToInt(cv).ExactString(), 10)
			return c.intConst(bi, t)
		case u.Info()&types.IsString != 0:
			return c.stringConst(constant.StringVal(cv))
		case u.Info()&types.IsFloat != 0:
			f, _ := constant.Float64Val(cv)
			return c.floatConst(f)
		}
	}
	return nil
}

func (c *Ctx) floatConst(f float64) *Term {
	// exact via to_fp of a rational decimal is awkward; use bit pattern
	bits := fmt.Sprintf("%064b", float64bits(f))
	return mk(fmt.Sprintf("(fp #b%s #b%s #b%s)", bits[0:1], bits[1:12], bits[12:]), FP64Sort)
}

func (c *Ctx) stringConst(s string) *Term {
	if c.strMode {
		return mk(smtStringLit(s), StringSort)
	}
	if t, ok := c.strConst[s]; ok {
		return t
	}
	ss := c.strSort()
	name := fmt.Sprintf("str!%d", len(c.strConst))
	t := c.declConst(name, ss)
	// distinct from the other literals, known length
	for _, o := range sortedKeys(c.strConst) {
		c.hyps = append(c.hyps, Not(Eq(t, c.strConst[o])))
	}
	c.hyps = append(c.hyps, Eq(App("str_len", c.idxSort(), t), c.idxConst(int64(len(s)))))
	c.strConst[s] = t
	return t
}

func smtStringLit(s string) string {
	var sb strings.Builder
	sb.WriteByte('"')
	for _, r := range []byte(s) {
		if r == '"' {
			sb.WriteString(`""`)
		} else if r < 32 || r > 126 || r == '\\' {
			sb.WriteString(fmt.Sprintf(`\u{%x}`, r))
		} else {
			sb.WriteByte(r)
		}
	}
	sb.WriteByte('"')
	return sb.String()
}

// zero value of a Go type
func (c *Ctx) zero(t types.Type) *Term {
	switch u := t.Underlying().(type) {
	case *types.Basic:
		switch {
		case u.Info()&types.IsBoolean != 0:
			return False
		case u.Info()&types.IsInteger != 0:
			return c.intConst(big.NewInt(0), t)
		case u.Info()&types.IsString != 0:
			return c.stringConst("")
		case u.Info()&types.IsFloat != 0:
			return c.floatConst(0)
		}
		return IntLit(0)
	case *types.Pointer, *types.Map, *types.Chan, *types.Signature:
		return IntLit(0)
	case *types.Slice:
		z := c.idxConst(0)
		return c.mkSlice(IntLit(0), z, z, z)
	case *types.Struct:
		var fs []*Term
		for i := 0; i < u.NumFields(); i++ {
			fs = append(fs, c.zero(u.Field(i).Type()))
		}
		return c.mkStruct(t, u, fs)
	case *types.Array:
		s := c.sortOf(t)
		return mk(fmt.Sprintf("((as const %s) %s)", s, c.zero(u.Elem())), s)
	case *types.Interface:
		if _, isTP := t.(*types.TypeParam); isTP {
			s := c.sortOf(t)
			c.declConst("zero_"+s.Name, s)
			return Var("zero_"+s.Name, s)
		}
		c.ifaceSort()
		return Var("iface_nil", c.ifaceSort())
	}
	return IntLit(0)
}

// ---------- heaps ----------

func (c *Ctx) fieldHeapName(st types.Type, fld string) string {
	return "H$" + c.structName(st) + "$" + smtIdent(fld)
}

func (c *Ctx) heapVar(s State, name string, sort *Sort) *Term {
	if t, ok := s[name]; ok {
		if !isMarker(t) {
			return t
		}
		// havocked before its sort was known: an arbitrary value from here on
		c.heapSort[name] = sort
		t = c.fresh(name, sort)
		s[name] = t
		return t
	}
	c.heapSort[name] = sort
	t := c.declConst(name+"@0", sort)
	s[name] = t
	return t
}

// havocMarker stands in a state for "this heap was overwritten by a call or a
// loop before anything referenced it (its sort is not known yet)".
var havocMarker = &Term{Op: "$havoc", Sort: BoolSort}

func (c *Ctx) fieldHeap(s State, st types.Type, u *types.Struct, i int) (string, *Term) {
	name := c.fieldHeapName(st, u.Field(i).Name())
	h := c.heapVar(s, name, ArraySort(RefSort, c.sortOf(u.Field(i).Type())))
	c.closedHeapAxiom(name, u.Field(i).Type())
	return name, h
}

// closedHeapAxiom: the heap at function entry is closed: every reference
// stored in a field points below the allocation frontier of the entry state
// (so objects allocated later are distinct from everything reachable before).
func (c *Ctx) closedHeapAxiom(name string, ft types.Type) {
	if !c.closedHeap || c.declared["closed:"+name] || !c.declared[name+"@0"] || !c.declared["$alloc@0"] {
		return
	}
	var body func(v *Term) *Term
	switch ft.Underlying().(type) {
	case *types.Pointer, *types.Map, *types.Chan:
		body = func(v *Term) *Term { return mk("<", BoolSort, v, Var("$alloc@0", IntSort)) }
	case *types.Slice:
		body = func(v *Term) *Term { return mk("<", BoolSort, c.slBase(v), Var("$alloc@0", IntSort)) }
	default:
		return
	}
	c.declared["closed:"+name] = true
	r := Var("r!q", IntSort)
	h0 := Var(name+"@0", ArraySort(RefSort, c.sortOf(ft)))
	// only objects that exist at entry: cells beyond the frontier are the
	// (unconstrained) initial contents of objects allocated later
	c.addHyp(Forall([]*Term{r}, Implies(mk("<", BoolSort, r, Var("$alloc@0", IntSort)), body(Select(h0, r)))))
}

func (c *Ctx) elemHeap(s State, elem types.Type) (string, *Term) {
	name := "E$" + typeName(elem)
	return name, c.heapVar(s, name, ArraySort(RefSort, ArraySort(c.idxSort(), c.sortOf(elem))))
}

func (c *Ctx) cellHeap(s State, elem types.Type) (string, *Term) {
	name := "P$" + typeName(elem)
	return name, c.heapVar(s, name, ArraySort(RefSort, c.sortOf(elem)))
}

func (c *Ctx) mapHeaps(s State, m *types.Map) (dn, vn, ln string, d, v, l *Term) {
	k := typeName(m.Key()) + "$" + typeName(m.Elem())
	ks, vs := c.sortOf(m.Key()), c.sortOf(m.Elem())
	dn, vn, ln = "Md$"+k, "Mv$"+k, "Ml$"+k
	d = c.heapVar(s, dn, ArraySort(RefSort, ArraySort(ks, BoolSort)))
	v = c.heapVar(s, vn, ArraySort(RefSort, ArraySort(ks, vs)))
	l = c.heapVar(s, ln, ArraySort(RefSort, c.idxSort()))
	return
}

func (c *Ctx) allocTop(s State) *Term { return c.heapVar(s, "$alloc", IntSort) }

// newRef allocates a fresh reference, distinct from everything allocated before.
func (c *Ctx) newRef(s State) *Term {
	top := c.allocTop(s)
	r := c.fresh("ref", IntSort)
	c.addHyp(Eq(r, top))
	s["$alloc"] = mk("+", IntSort, top, IntLit(1))
	return r
}

func float64bits(f float64) uint64 { return mathFloat64bits(f) }

func fieldSmt(st *types.Struct, i int) string {
	n := st.Field(i).Name()
	if n == "_" {
		return fmt.Sprintf("blank%d", i)
	}
	return smtIdent(n)
}
