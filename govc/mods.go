package main

// Static, field-level mod-set analysis over go/ssa (DESIGN §2.4): which heap
// arrays may a function (transitively) write?  Used for loop havoc, for
// callees without a modifies clause and for abstract calls.

import (
	"go/types"
	"sort"
	"strings"

	"golang.org/x/tools/go/ssa"
)

type ModSet struct {
	all   bool
	names map[string]bool
}

func newModSet() *ModSet { return &ModSet{names: map[string]bool{}} }

func (m *ModSet) add(n string) { m.names[n] = true }
func (m *ModSet) union(o *ModSet) {
	if o.all {
		m.all = true
	}
	for k := range o.names {
		m.names[k] = true
	}
}
func (m *ModSet) list() []string {
	out := make([]string, 0, len(m.names))
	for k := range m.names {
		out = append(out, k)
	}
	sort.Strings(out)
	return out
}

var modCache = map[*ssa.Function]*ModSet{}
var modVisiting = map[*ssa.Function]bool{}

// modsOf: transitive mod-set of fn (static callees followed; dynamic calls
// resolved by modsOfDynamic).
func (c *Ctx) modsOf(fn *ssa.Function) *ModSet {
	if m, ok := modCache[fn]; ok {
		return m
	}
	if modVisiting[fn] {
		return newModSet() // recursion: the fixpoint is reached by the outer call
	}
	modVisiting[fn] = true
	defer delete(modVisiting, fn)
	m := newModSet()
	if sp := c.specOf(fn); sp != nil {
		// ghost variables the contract assigns (site clauses, exit updates)
		for _, g := range specGhostWrites(sp) {
			m.add("ghost$" + g)
		}
	}
	if sp := c.specOf(fn); sp != nil && sp.HasMod {
		for _, it := range sp.Modifies {
			for _, h := range c.resolveHeapNames(it, fn) {
				m.add(h)
			}
		}
		modCache[fn] = m
		return m
	}
	if len(fn.Blocks) == 0 {
		// no body (assembly / linkname): known pure runtime helpers, otherwise writes
		// only through its pointer arguments
		c.externMods(fn, m)
		modCache[fn] = m
		return m
	}
	for _, b := range fn.Blocks {
		for _, in := range b.Instrs {
			c.instrMods(fn, in, m)
		}
	}
	for _, an := range fn.AnonFuncs {
		_ = an // closures are accounted for where they are called or passed
	}
	modCache[fn] = m
	return m
}

func (c *Ctx) specOf(fn *ssa.Function) *FuncSpec {
	p, k := calleeKeyOf(fn)
	return c.specs.Funcs[p+"::"+k]
}

func (c *Ctx) externMods(fn *ssa.Function, m *ModSet) {
	for _, p := range fn.Params {
		c.typeReachMods(p.Type(), m, map[types.Type]bool{}, 1)
	}
}

// storeTarget names the heap written by a store through addr.
func (c *Ctx) storeTarget(addr ssa.Value, m *ModSet) {
	switch a := addr.(type) {
	case *ssa.FieldAddr:
		st := deref(a.X.Type())
		// nested: &x.f.g writes field f of x's struct when x.f is itself a field address
		if inner, ok := a.X.(*ssa.FieldAddr); ok {
			c.storeTarget(inner, m)
			return
		}
		if ia, ok := a.X.(*ssa.IndexAddr); ok {
			c.storeTarget(ia, m)
			return
		}
		if s, ok := st.Underlying().(*types.Struct); ok {
			m.add(c.fieldHeapName(st, s.Field(a.Field).Name()))
			// the struct may live inside a slice element, an array or another
			// struct (interior pointer of unknown origin)
			if _, isAlloc := a.X.(*ssa.Alloc); !isAlloc {
				c.interiorHeaps(st, m)
			}
		}
	case *ssa.IndexAddr:
		switch bt := a.X.Type().Underlying().(type) {
		case *types.Slice:
			m.add("E$" + typeName(bt.Elem()))
		case *types.Pointer:
			// element of an array: the array lives wherever a.X points
			c.storeTarget(a.X, m)
			if arr, ok := bt.Elem().Underlying().(*types.Array); ok {
				m.add("E$" + typeName(arr.Elem())) // in case the array was sliced
			}
		}
	case *ssa.Global:
		m.add("G$" + smtIdent(a.Pkg.Pkg.Path()+"."+a.Name()))
	case *ssa.Alloc:
		// a fresh cell: only its own heaps, never the interior of other objects
		elem := deref(a.Type())
		if s, ok := elem.Underlying().(*types.Struct); ok {
			for i := 0; i < s.NumFields(); i++ {
				m.add(c.fieldHeapName(elem, s.Field(i).Name()))
			}
		} else if arr, ok := elem.Underlying().(*types.Array); ok {
			m.add("E$" + typeName(arr.Elem()))
		} else {
			m.add("P$" + typeName(elem))
		}
	default:
		c.derefMods(deref(addr.Type()), m)
	}
}

// derefMods: a store through a *T pointer of unknown origin.
func (c *Ctx) derefMods(elem types.Type, m *ModSet) {
	c.interiorHeaps(elem, m)
	if s, ok := elem.Underlying().(*types.Struct); ok {
		for i := 0; i < s.NumFields(); i++ {
			m.add(c.fieldHeapName(elem, s.Field(i).Name()))
		}
		return
	}
	m.add("P$" + typeName(elem))
}

var interiorCache = map[string][]string{}

// interiorHeaps: heaps in which a value of type t can live by value (slice
// elements, struct-typed or array-typed fields of structs of the root packages).
func (c *Ctx) interiorHeaps(t types.Type, m *ModSet) {
	key := types.TypeString(t, nil)
	if hs, ok := interiorCache[key]; ok {
		for _, h := range hs {
			m.add(h)
		}
		return
	}
	hs := []string{"E$" + typeName(t)}
	_, isStruct := t.Underlying().(*types.Struct)
	if !isStruct {
		c.note("stores through *scalar pointers of unknown origin are assumed not to alias struct fields (only slice elements and cells)")
	}
	for _, p := range c.prog.Pkgs {
		if p.Types == nil || !isStruct {
			continue
		}
		sc := p.Types.Scope()
		for _, n := range sc.Names() {
			tn, ok := sc.Lookup(n).(*types.TypeName)
			if !ok {
				continue
			}
			st, ok := tn.Type().Underlying().(*types.Struct)
			if !ok {
				continue
			}
			for i := 0; i < st.NumFields(); i++ {
				ft := st.Field(i).Type()
				if arr, ok := ft.Underlying().(*types.Array); ok {
					ft = arr.Elem()
				}
				if types.Identical(ft, t) {
					hs = append(hs, c.fieldHeapName(tn.Type(), st.Field(i).Name()))
				}
			}
		}
	}
	interiorCache[key] = hs
	for _, h := range hs {
		m.add(h)
	}
}

func mapHeapNames(mt *types.Map) []string {
	k := typeName(mt.Key()) + "$" + typeName(mt.Elem())
	return []string{"Md$" + k, "Mv$" + k, "Ml$" + k}
}

func (c *Ctx) instrMods(fn *ssa.Function, in ssa.Instruction, m *ModSet) {
	switch x := in.(type) {
	case *ssa.Store:
		c.storeTarget(x.Addr, m)
	case *ssa.MapUpdate:
		if mt, ok := x.Map.Type().Underlying().(*types.Map); ok {
			for _, n := range mapHeapNames(mt) {
				m.add(n)
			}
		}
	case *ssa.Slice:
		// slicing an array cell moves it into the element heap (see sliceOp)
		if pt, ok := x.X.Type().Underlying().(*types.Pointer); ok {
			if arr, ok := pt.Elem().Underlying().(*types.Array); ok {
				m.add("E$" + typeName(arr.Elem()))
			}
		}
	case *ssa.Send:
		m.add("Chan$len")
	case *ssa.Call:
		c.callMods(fn, x.Common(), m)
	case *ssa.Defer:
		c.callMods(fn, x.Common(), m)
	case *ssa.Go:
		c.callMods(fn, x.Common(), m)
	}
}

func (c *Ctx) callMods(fn *ssa.Function, cc *ssa.CallCommon, m *ModSet) {
	if b, ok := cc.Value.(*ssa.Builtin); ok {
		switch b.Name() {
		case "append", "copy":
			if sl, ok := cc.Args[0].Type().Underlying().(*types.Slice); ok {
				m.add("E$" + typeName(sl.Elem()))
			}
		case "delete", "clear":
			if mt, ok := cc.Args[0].Type().Underlying().(*types.Map); ok {
				for _, n := range mapHeapNames(mt) {
					m.add(n)
				}
			}
			if sl, ok := cc.Args[0].Type().Underlying().(*types.Slice); ok {
				m.add("E$" + typeName(sl.Elem()))
			}
		case "close":
			m.add("Chan$len")
		}
		return
	}
	if callee := cc.StaticCallee(); callee != nil {
		if _, ok := intrinsics[fullName(callee)]; ok && strings.HasPrefix(fullName(callee), "sync::") {
			return // lock operations: the lock word is not modelled
		}
		m.union(c.modsOf(callee))
		// a closure passed to / created for the callee may be called by it
		if mc, ok := cc.Value.(*ssa.MakeClosure); ok {
			m.union(c.modsOf(mc.Fn.(*ssa.Function)))
		}
		fname := fullName(callee)
		readOnly := strings.HasPrefix(fname, "sync/atomic::Load")
		// a callee with an explicit frame (modifies clause) that is flagged
		// "defers-callbacks" never runs a function argument during the call
		deferred := false
		if sp := c.specOf(callee); sp != nil && sp.HasMod && sp.Flags["defers-callbacks"] != "" {
			deferred = true
		}
		for _, a := range cc.Args {
			if !deferred {
				c.funcArgMods(a, m)
			}
			if readOnly {
				continue
			}
			// an interior address handed to the callee (&x.f, &s[i]): its writes
			// land in the container
			switch a.(type) {
			case *ssa.FieldAddr, *ssa.IndexAddr:
				if _, isPtr := a.Type().Underlying().(*types.Pointer); isPtr {
					c.storeTarget(a, m)
				}
			}
		}
		return
	}
	m.union(c.modsOfDynamic(fn, cc))
}

// funcArgMods: function values passed as arguments may be invoked by the callee.
func (c *Ctx) funcArgMods(a ssa.Value, m *ModSet) {
	switch v := a.(type) {
	case *ssa.MakeClosure:
		m.union(c.modsOf(v.Fn.(*ssa.Function)))
	case *ssa.Function:
		m.union(c.modsOf(v))
	case *ssa.MakeInterface:
		c.funcArgMods(v.X, m)
	}
}

var dynCache = map[string]*ModSet{}

// modsOfDynamic: a call through an interface or a function value.  Targets
// inside the package of the caller are enumerated (methods of that name on
// types of the package; address-taken functions of identical signature);
// targets outside the package can only write what is reachable from the
// arguments through exported structure or through pointers handed to them.
func (c *Ctx) modsOfDynamic(caller *ssa.Function, cc *ssa.CallCommon) *ModSet {
	m := newModSet()
	pkg := ssaPkgOf(caller)
	if cc.IsInvoke() {
		key := "invoke:" + cc.Method.Name()
		if pkg != nil {
			key += "@" + pkg.Pkg.Path()
		}
		if cached, ok := dynCache[key]; ok {
			m.union(cached)
		} else {
			dynCache[key] = newModSet() // cycle guard
			cm := newModSet()
			if pkg != nil {
				for _, mem := range pkg.Members {
					t, ok := mem.(*ssa.Type)
					if !ok {
						continue
					}
					for _, ty := range []types.Type{t.Type(), types.NewPointer(t.Type())} {
						ms := c.prog.SSA.MethodSets.MethodSet(ty)
						if sel := ms.Lookup(cc.Method.Pkg(), cc.Method.Name()); sel != nil {
							if types.Identical(sel.Type().(*types.Signature).Params(), cc.Signature().Params()) {
								if fn := c.prog.SSA.MethodValue(sel); fn != nil {
									cm.union(c.modsOf(fn))
								}
							}
						}
					}
				}
			}
			dynCache[key] = cm
			m.union(cm)
		}
		c.typeReachMods(cc.Value.Type(), m, map[types.Type]bool{}, 0)
	} else if isContextCancel(cc.Value) {
		c.note("assumed: a context.CancelFunc does not call back into the package under verification")
		return m
	} else {
		// function value: candidates = anonymous functions and address-taken
		// functions of the caller's package with an identical signature
		sig := cc.Signature()
		key := "func:" + sig.String()
		if pkg != nil {
			key += "@" + pkg.Pkg.Path()
		}
		if cached, ok := dynCache[key]; ok {
			m.union(cached)
		} else {
			dynCache[key] = newModSet()
			cm := newModSet()
			if pkg != nil {
				for _, cand := range c.addressTaken(pkg) {
					if types.Identical(cand.Signature.Params(), sig.Params()) && types.Identical(cand.Signature.Results(), sig.Results()) {
						cm.union(c.modsOf(cand))
					}
				}
			}
			dynCache[key] = cm
			m.union(cm)
		}
	}
	for _, a := range cc.Args {
		c.argReachMods(a, m)
	}
	return m
}

func ssaPkgOf(fn *ssa.Function) *ssa.Package {
	o := fn
	if fn.Origin() != nil {
		o = fn.Origin()
	}
	for o.Parent() != nil {
		o = o.Parent()
	}
	return o.Pkg
}

var addrTakenCache = map[*ssa.Package][]*ssa.Function{}

func (c *Ctx) addressTaken(pkg *ssa.Package) []*ssa.Function {
	if r, ok := addrTakenCache[pkg]; ok {
		return r
	}
	seen := map[*ssa.Function]bool{}
	var out []*ssa.Function
	var visit func(fn *ssa.Function)
	visit = func(fn *ssa.Function) {
		for _, b := range fn.Blocks {
			for _, in := range b.Instrs {
				ops := in.Operands(nil)
				var callee ssa.Value
				if cc, ok := in.(ssa.CallInstruction); ok {
					callee = cc.Common().Value
				}
				for _, op := range ops {
					if op == nil || *op == nil {
						continue
					}
					var target *ssa.Function
					switch v := (*op).(type) {
					case *ssa.Function:
						if v != callee || func() bool { _, isCall := in.(ssa.CallInstruction); return !isCall }() {
							target = v
						}
					case *ssa.MakeClosure:
						target = v.Fn.(*ssa.Function)
					}
					if target != nil && !seen[target] {
						seen[target] = true
						out = append(out, target)
					}
				}
				if mc, ok := in.(*ssa.MakeClosure); ok {
					t := mc.Fn.(*ssa.Function)
					if !seen[t] {
						seen[t] = true
						out = append(out, t)
					}
				}
			}
		}
		for _, an := range fn.AnonFuncs {
			visit(an)
		}
	}
	for _, mem := range pkg.Members {
		switch x := mem.(type) {
		case *ssa.Function:
			visit(x)
		case *ssa.Type:
			for _, ty := range []types.Type{x.Type(), types.NewPointer(x.Type())} {
				ms := c.prog.SSA.MethodSets.MethodSet(ty)
				for i := 0; i < ms.Len(); i++ {
					if fn := c.prog.SSA.MethodValue(ms.At(i)); fn != nil && fn.Pkg == pkg {
						visit(fn)
					}
				}
			}
		}
	}
	addrTakenCache[pkg] = out
	return out
}

// argReachMods: memory an out-of-package callee can write through argument a.
func (c *Ctx) argReachMods(a ssa.Value, m *ModSet) {
	if mi, ok := a.(*ssa.MakeInterface); ok {
		c.argReachMods(mi.X, m)
		return
	}
	if sl, ok := a.(*ssa.Slice); ok {
		// varargs: a slice of a fresh array holding boxed values
		if al, ok := sl.X.(*ssa.Alloc); ok {
			for _, ref := range *al.Referrers() {
				if ia, ok := ref.(*ssa.IndexAddr); ok {
					for _, r2 := range *ia.Referrers() {
						if stv, ok := r2.(*ssa.Store); ok {
							c.argReachMods(stv.Val, m)
						}
					}
				}
			}
			return
		}
	}
	switch v := a.(type) {
	case *ssa.MakeClosure:
		m.union(c.modsOf(v.Fn.(*ssa.Function)))
		return
	case *ssa.Function:
		m.union(c.modsOf(v))
		return
	}
	c.typeReachMods(a.Type(), m, map[types.Type]bool{}, 0)
}

// typeReachMods adds the heaps writable through a value of type t by code
// that may use exported structure only (depth-limited type walk).
func (c *Ctx) typeReachMods(t types.Type, m *ModSet, seen map[types.Type]bool, depth int) {
	if t == nil || seen[t] || depth > 4 {
		return
	}
	seen[t] = true
	switch u := t.Underlying().(type) {
	case *types.Pointer:
		elem := u.Elem()
		if s, ok := elem.Underlying().(*types.Struct); ok {
			for i := 0; i < s.NumFields(); i++ {
				fl := s.Field(i)
				if fl.Exported() {
					m.add(c.fieldHeapName(elem, fl.Name()))
					c.typeReachMods(fl.Type(), m, seen, depth+1)
				}
			}
			// methods of the type may write unexported fields: include methods' mods
			c.methodMods(elem, m)
			return
		}
		m.add("P$" + typeName(elem))
		c.typeReachMods(elem, m, seen, depth+1)
	case *types.Slice:
		m.add("E$" + typeName(u.Elem()))
		c.typeReachMods(u.Elem(), m, seen, depth+1)
	case *types.Map:
		for _, n := range mapHeapNames(u) {
			m.add(n)
		}
		c.typeReachMods(u.Elem(), m, seen, depth+1)
	case *types.Struct:
		for i := 0; i < u.NumFields(); i++ {
			if u.Field(i).Exported() {
				c.typeReachMods(u.Field(i).Type(), m, seen, depth+1)
			}
		}
	case *types.Chan:
		m.add("Chan$len")
	case *types.Interface:
		// dynamic type unknown: assumption recorded by the caller
		c.note("interface-typed values passed to abstract calls are assumed not to reach structures under contract unless their construction is visible at the call")
	}
}

var methodModsCache = map[string]*ModSet{}

func (c *Ctx) methodMods(t types.Type, m *ModSet) {
	key := types.TypeString(t, nil)
	if cm, ok := methodModsCache[key]; ok {
		m.union(cm)
		return
	}
	cm := newModSet()
	methodModsCache[key] = cm
	for _, ty := range []types.Type{t, types.NewPointer(t)} {
		ms := c.prog.SSA.MethodSets.MethodSet(ty)
		for i := 0; i < ms.Len(); i++ {
			sel := ms.At(i)
			if !sel.Obj().Exported() {
				continue
			}
			if fn := c.prog.SSA.MethodValue(sel); fn != nil {
				cm.union(c.modsOf(fn))
			}
		}
	}
	m.union(cm)
}

// loopMods: heaps written inside the blocks of a loop body.
func (c *Ctx) loopMods(fn *ssa.Function, body map[int]bool) *ModSet {
	m := newModSet()
	for _, b := range fn.Blocks {
		if !body[b.Index] {
			continue
		}
		for _, in := range b.Instrs {
			c.instrMods(fn, in, m)
		}
	}
	return m
}
