package main

import (
	"regexp"
	"strings"

	"golang.org/x/tools/go/ssa"
)

// asyncBoundary: the contract of the function being verified declares
//   //@   async-boundary <callee key>[, <callee key>...]
// for a contract-less callee that hands work to another goroutine (enqueue +
// schedule, timer, channel send). The coarse resolution of the dynamic calls
// inside such a callee (every method of that name / every function value of
// that signature in the package) would make it look as if it could run any
// handler - and so any ghost-updating function under contract - synchronously.
// With the declaration, the ghost variables the contract mentions are kept
// across the call, provided no function under contract that updates one of
// them is reachable from the callee through static calls and closures (checked
// here on the SSA; a spec error otherwise). What remains assumed - and is listed
// in the evidence - is that the callee's dynamically dispatched calls (loggers,
// mailbox and dispatcher interfaces) do not re-enter such a function
// synchronously. Returns the set of ghost variables kept (nil = none).
func (f *frame) asyncBoundary(callee *ssa.Function) map[string]bool {
	root := f.root()
	if callee == nil || root.spec == nil {
		return nil
	}
	decl := root.spec.Flags["async-boundary"]
	if decl == "" {
		return nil
	}
	found := false
	for _, it := range strings.Split(decl, ",") {
		if strings.TrimSpace(it) == funcKey(callee) {
			found = true
		}
	}
	if !found {
		return nil
	}
	mentioned := specGhostMentions(f.c.specs, root.spec)
	if len(mentioned) == 0 {
		return nil
	}
	pkgPath, _ := calleeKeyOf(callee)
	kept := map[string]bool{}
	for g := range mentioned {
		// the functions under contract that update g; g is kept only when none
		// of them is reachable from the callee through static calls / closures
		var writers []string
		for _, sp := range f.c.specs.Order {
			if sp.PkgPath != pkgPath {
				continue
			}
			for _, w := range specGhostWrites(sp) {
				if w == g {
					writers = append(writers, sp.Key)
					break
				}
			}
		}
		if !reachesAny(callee, writers, map[*ssa.Function]bool{}, 0) {
			kept[g] = true
		}
	}
	if len(kept) == 0 {
		return nil
	}
	mentioned = kept
	f.c.note("ASSUMED async boundary: " + funcKey(callee) + " (called from " + funcKey(root.fn) + ") does not synchronously re-enter, through dynamic dispatch, a function under contract that updates the caller's ghost state; static reachability checked on the SSA")
	return mentioned
}

var ghostIdentRe = regexp.MustCompile(`[A-Za-z_][A-Za-z0-9_]*`)

// specGhostMentions: the declared ghost variables a contract reads or writes.
func specGhostMentions(ss *SpecSet, sp *FuncSpec) map[string]bool {
	out := map[string]bool{}
	scan := func(c *Clause) {
		if c == nil {
			return
		}
		for _, id := range ghostIdentRe.FindAllString(c.Text, -1) {
			if _, ok := ss.Ghosts[id]; ok {
				out[id] = true
			}
		}
	}
	for _, c := range sp.Requires {
		scan(c)
	}
	for _, c := range sp.Ensures {
		scan(c)
	}
	for _, l := range sp.Loops {
		for _, c := range l.Invariants {
			scan(c)
		}
	}
	for _, s := range sp.Sites {
		scan(s.C)
		if s.Ghost != "" {
			out[s.Ghost] = true
		}
	}
	for _, s := range sp.GhostSets {
		scan(s.C)
		out[s.Ghost] = true
	}
	for _, s := range sp.GhostInits {
		scan(s.C)
		out[s.Ghost] = true
	}
	return out
}
