package main

// loopMarker: like havocMarker, but set by the havoc at a loop header. A heap
// that still carries it at function exit was never touched by the (arbitrary)
// iteration that was executed symbolically nor by a callee, so it is unchanged;
// it was only in the loop's static mod-set because that analysis is coarse.
var loopMarker = &Term{Op: "$loophavoc", Sort: BoolSort}

func isMarker(t *Term) bool { return t == havocMarker || t == loopMarker }

func joinMarkers(a, b *Term) *Term {
	if a == havocMarker || b == havocMarker {
		return havocMarker
	}
	return loopMarker
}

// havocHeapLoop: havoc at a loop header.
func (c *Ctx) havocHeapLoop(st State, name string) {
	srt, ok := c.heapSort[name]
	if !ok {
		if cur, ok2 := st[name]; ok2 && !isMarker(cur) {
			srt = cur.Sort
		} else {
			if cur, ok2 := st[name]; !ok2 || cur != havocMarker {
				st[name] = loopMarker
			}
			return
		}
	}
	st[name] = c.fresh(name, srt)
}
