package main

import (
	"fmt"
	"go/ast"
	"go/token"
	"go/types"
	"strings"

	"golang.org/x/tools/go/ssa"
)

// ---------- loops ----------

func (f *frame) loopSpec(li *loopInfo) *LoopSpec {
	if f.spec == nil {
		return nil
	}
	return f.spec.Loops[li.ord]
}

func (f *frame) invEnv(li *loopInfo, st State, override map[string]Val) *specEnv {
	env := f.newSpecEnv(st, f.entry)
	env.at = li.header
	env.override = override
	if f.spec != nil {
		for i, n := range f.spec.Params {
			if i < len(f.params) {
				env.setParam(n, f.params[i])
			}
		}
	}
	return env
}

// enterLoop: check the invariants on entry, havoc the loop targets, assume
// the invariants for an arbitrary iteration.
func (f *frame) enterLoop(li *loopInfo, b *ssa.BasicBlock, pc *Term, st State) (*Term, State) {
	c := f.c
	ls := f.loopSpec(li)
	// entry values of the phis (merged over forward predecessors)
	type inc struct {
		cond *Term
		idx  int
	}
	var ins []inc
	for i, p := range b.Preds {
		if f.isBackEdge(p, b) {
			continue
		}
		if e, ok := f.edge[[2]int{p.Index, b.Index}]; ok {
			ins = append(ins, inc{e, i})
		}
	}
	entryVals := map[string]Val{}
	var phis []*ssa.Phi
	for _, instr := range b.Instrs {
		phi, ok := instr.(*ssa.Phi)
		if !ok {
			break
		}
		phis = append(phis, phi)
		if len(ins) == 0 {
			continue
		}
		v := f.get(phi.Edges[ins[len(ins)-1].idx])
		for i := len(ins) - 2; i >= 0; i-- {
			v = f.mergeVal(ins[i].cond, f.get(phi.Edges[ins[i].idx]), v)
		}
		f.vals[phi] = v
		if phi.Comment != "" {
			entryVals[phi.Comment] = v
		}
	}
	if ls != nil {
		for i, inv := range ls.Invariants {
			env := f.invEnv(li, st, nil)
			g := f.safeEval(env, inv)
			if g == nil {
				continue
			}
			f.check("invariant-entry", f.oblName(fmt.Sprintf("loop#%d/invariant%s/entry", li.ord, clauseTag(inv, i))), pc, g, b.Instrs[0].Pos(), inv)
			if f.flagOn("assume-entry", false) {
				// the invariant has just been checked for the entry state: it may
				// be used as a fact about that state afterwards (e.g. to relate a
				// map's domain at the start of a range to the function's entry).
				// Off by default: quantified facts cost instantiations.
				c.addHyp(Implies(pc, g))
			}
		}
	} else if !f.inlined {
		f.warnf("loop %d has no invariant (true assumed)", li.ord)
	}
	if !f.inlined {
		if g := f.autoBound(li); g != nil {
			f.check("invariant-entry", f.oblName(fmt.Sprintf("loop#%d/auto-bounds/entry", li.ord)), pc, g, b.Instrs[0].Pos(), nil)
		}
	}
	// havoc
	ms := c.loopMods(f.fn, li.body)
	if ms.all {
		c.havocAll(st)
	}
	for _, h := range ms.list() {
		if strings.HasPrefix(h, "ghost$") {
			continue // ghost state: decided by ghostsWrittenIn below
		}
		c.havocHeapLoop(st, h)
	}
	ghostsInLoop := f.ghostsWrittenIn(li)
	for g := range ghostsInLoop {
		if _, inState := st["ghost$"+g]; !inState {
			c.havocHeapLoop(st, "ghost$"+g)
		}
	}
	for _, k := range sortedKeys(st) {
		if strings.HasPrefix(k, "$visited$") && !strings.HasSuffix(k, "$dom0") {
			// only the visited set of a range that lives inside this loop
			st[k] = c.fresh(k, st[k].Sort)
		}
		if strings.HasPrefix(k, "ghost$") && ghostsInLoop[strings.TrimPrefix(k, "ghost$")] && !isMarker(st[k]) {
			st[k] = c.fresh(k, st[k].Sort)
		}
	}
	// allocation only grows
	oldTop := c.allocTop(st)
	ntop := c.fresh("$alloc", IntSort)
	c.addHyp(mk(">=", BoolSort, ntop, oldTop))
	st["$alloc"] = ntop
	for _, phi := range phis {
		v := f.freshVal(f.valName(phi), phi.Type(), st)
		if !f.inlined {
			c.addCand(v.T, phi.Type())
		}
		// keep statically known function identity out; loop-carried values are arbitrary
		f.vals[phi] = v
	}
	if ls != nil {
		for _, inv := range ls.Invariants {
			env := f.invEnv(li, st, nil)
			if g := f.safeEval(env, inv); g != nil {
				c.addHyp(Implies(pc, g))
			}
		}
	}
	if g := f.autoBound(li); g != nil {
		c.addHyp(Implies(pc, g))
	}
	return pc, st
}

func clauseTag(cl *Clause, i int) string {
	if cl.Label != "" {
		return ":" + cl.Label
	}
	return fmt.Sprintf("#%d", i+1)
}

// closeLoop: invariant preserved along a back edge.
func (f *frame) closeLoop(li *loopInfo, from *ssa.BasicBlock, cond *Term, st State) {
	ls := f.loopSpec(li)
	if ls == nil {
		ls = &LoopSpec{}
	}
	b := li.header
	idx := -1
	for i, p := range b.Preds {
		if p == from {
			idx = i
		}
	}
	// evaluate the invariant with the phis bound to their back-edge values
	saved := map[*ssa.Phi]Val{}
	for _, instr := range b.Instrs {
		phi, ok := instr.(*ssa.Phi)
		if !ok {
			break
		}
		saved[phi] = f.vals[phi]
		f.vals[phi] = f.get(phi.Edges[idx])
	}
	for i, inv := range ls.Invariants {
		env := f.invEnv(li, st, nil)
		g := f.safeEval(env, inv)
		if g == nil {
			continue
		}
		o := f.emit("invariant-preserved", f.oblName(fmt.Sprintf("loop#%d/invariant%s/preserved", li.ord, clauseTag(inv, i))), cond, g, from.Instrs[len(from.Instrs)-1].Pos(), inv)
		_ = o
	}
	if !f.inlined {
		if g := f.autoBound(li); g != nil {
			f.emit("invariant-preserved", f.oblName(fmt.Sprintf("loop#%d/auto-bounds/preserved", li.ord)), cond, g, from.Instrs[len(from.Instrs)-1].Pos(), nil)
		}
	}
	for phi, v := range saved {
		f.vals[phi] = v
	}
}

func (f *frame) safeEval(env *specEnv, cl *Clause) (res *Term) {
	defer func() {
		if r := recover(); r != nil {
			if se, ok := r.(specError); ok {
				f.c.warn = append(f.c.warn, fmt.Sprintf("SPEC-ERROR %s:%d: %s in %q", cl.File, cl.Line, se.msg, cl.Text))
				f.c.specErrors++
				if strings.Contains(se.msg, "unknown identifier") {
					// the clause names a program variable that no longer exists (a
					// renamed local): the CONTRACT is stale, which says nothing about
					// the property - whatever else fails in this function is undecided
					f.c.staleContract = true
				}
				res = nil
				return
			}
			if debugPanics {
				panic(r)
			}
			// the clause cannot be evaluated at this program point (e.g. an
			// invariant that, after a code change, lands on a loop over a
			// different map type): the clause is dropped and reported; the rest
			// of the contract is still checked, so an ensures that depended on it
			// fails as an obligation instead of the whole function going undecided
			f.c.warn = append(f.c.warn, fmt.Sprintf("SPEC-ERROR %s:%d: clause cannot be evaluated here (%v) in %q", cl.File, cl.Line, r, cl.Text))
			f.c.specErrors++
			res = nil
		}
	}()
	return env.evalBool(cl.E)
}

// ---------- function under contract ----------

type FuncResult struct {
	Spec    *FuncSpec
	Fn      *ssa.Function
	Ctx     *Ctx
	Err     string
	Missing bool
}

func verifyFunc(prog *Program, specs *SpecSet, sp *FuncSpec) (res *FuncResult) {
	res = &FuncResult{Spec: sp}
	fn := prog.lookupFunc(sp.PkgPath, sp.Key)
	if fn == nil {
		res.Missing = true
		res.Err = "function not found: " + sp.PkgPath + "::" + sp.Key
		return
	}
	res.Fn = fn
	mode := ModeInt
	arith := strings.Fields(sp.Arith)
	if len(arith) > 0 && strings.HasPrefix(arith[0], "bv") {
		mode = ModeBV
	}
	c := newCtx(prog, specs, mode)
	c.curProp = sp.Property
	if curCheckID != "" {
		c.curProp = curCheckID
	}
	c.closedHeap = wantsClosedHeap(sp)
	res.Ctx = c
	if sp.Flags["strings"] == "on" {
		c.strMode = true
	}
	defer func() {
		if r := recover(); r != nil {
			if se, ok := r.(specError); ok {
				res.Err = "spec error: " + se.msg
				return
			}
			res.Err = fmt.Sprintf("generator panic: %v", r)
			if debugPanics {
				panic(r)
			}
		}
	}()
	if sp.Flags["trusted"] != "" {
		c.note("TRUSTED contract (body not verified): " + sp.Key + " — " + sp.Flags["trusted"])
		return
	}
	if len(fn.Blocks) == 0 {
		res.Err = "function has no body"
		return
	}
	if fd, ok := fn.Syntax().(*ast.FuncDecl); ok && fd.Body != nil {
		c.typePos = fd.Body.Lbrace + 1
	}
	f := c.newFrame(fn, sp, nil)
	st := State{}
	c.addHyp(mk(">", BoolSort, c.allocTop(st), IntLit(0)))
	// parameters
	var args []Val
	for i, p := range fn.Params {
		name := p.Name()
		if i < len(sp.Params) {
			name = sp.Params[i]
		}
		v := Val{T: c.declConst("in."+smtIdent(name), c.sortOf(p.Type())), Typ: p.Type()}
		c.addHyp(c.wellTypedIn(v.T, p.Type(), st))
		c.addCand(v.T, p.Type())
		args = append(args, v)
	}
	for i, fv := range fn.FreeVars {
		_ = i
		if f.free == nil {
			f.free = map[ssa.Value]Val{}
		}
		v := Val{T: c.declConst("free."+smtIdent(fv.Name()), c.sortOf(fv.Type())), Typ: fv.Type()}
		c.addHyp(c.wellTypedIn(v.T, fv.Type(), st))
		f.free[fv] = v
	}
	pre := f.newSpecEnv(st, st)
	bindParams(pre, sp, fn, args)
	for _, fv := range fn.FreeVars {
		pre.vars[fv.Name()] = f.free[fv]
	}
	// ghost flags local to this function start from their declared entry value
	f.applyGhostSets(&FuncSpec{GhostSets: sp.GhostInits}, pre, st)
	var reqs []*Term
	for _, r := range sp.Requires {
		g := f.safeEval(pre, r)
		if g != nil {
			reqs = append(reqs, g)
			c.addHyp(g)
		}
	}
	// vacuity guard: the precondition (with type invariants) must be satisfiable
	vo := f.emit("vacuity", f.oblName("requires-satisfiable"), True, False, fn.Pos(), nil)
	vo.Expect = "sat"
	retPc, results, out := f.run(True, st, args)
	f.checkSiteAnchors()
	if isFalse(retPc) {
		f.warnf("no return point reachable")
	}
	post := f.newSpecEnv(out, f.entry)
	bindParams(post, sp, fn, args)
	for _, fv := range fn.FreeVars {
		post.vars[fv.Name()] = f.free[fv]
	}
	post.results = results
	f.applyGhostSets(sp, post, out)
	for i, e := range sp.Ensures {
		g := f.safeEval(post, e)
		if g == nil {
			continue
		}
		eo := f.emit("ensures", f.oblName("ensures"+clauseTag(e, i)), retPc, g, fn.Pos(), e)
		eo.Expected = expectedOfClause(post, e.E)
		// reachability probe for implications: antecedent reachable at some return
		if im, ok := e.E.(*SImpl); ok && f.flagOn("probe", true) {
			func() {
				defer func() {
					if r := recover(); r != nil {
						if _, ok := r.(specError); !ok {
							panic(r)
						}
					}
				}()
				a := post.evalBool(im.A)
				po := f.emit("vacuity", f.oblName("ensures"+clauseTag(e, i)+"/antecedent-reachable"), retPc, Not(a), fn.Pos(), e)
				po.Expect = "sat"
			}()
		}
	}
	// frame: heaps not listed in modifies are unchanged
	if sp.HasMod {
		allowed := map[string]bool{}
		for _, m := range sp.Modifies {
			for _, h := range c.resolveHeapNames(m, fn) {
				allowed[h] = true
			}
		}
		for _, g := range specGhostWrites(sp) {
			allowed["ghost$"+g] = true
		}
		for _, h := range sortedKeys(out) {
			if strings.HasPrefix(h, "ghost$") && localGhosts[h[6:]] {
				continue
			}
			if allowed[h] || h == "$alloc" || strings.HasPrefix(h, "$visited") || h == "$epoch" {
				continue
			}
			if out[h] == loopMarker {
				continue // only in a loop's static mod-set; never actually touched
			}
			if out[h] == havocMarker {
				// overwritten by a callee and never read again: cannot be shown unchanged
				f.emit("frame", f.oblName("frame("+h+")"), retPc, False, fn.Pos(), nil)
				continue
			}
			before, ok := f.entry[h]
			if !ok {
				before = Var(h+"@0", out[h].Sort)
			}
			if out[h] == before || out[h].String() == before.String() {
				continue
			}
			goal := f.frameGoal(h, out[h], before, f.entry)
			f.emit("frame", f.oblName("frame("+h+")"), retPc, goal, fn.Pos(), nil)
		}
	}
	return
}

// applyGhostSets performs the function-level ghost updates ("ghost x = e"),
// evaluated in the post-state, writing into st.
func (f *frame) applyGhostSets(sp *FuncSpec, env *specEnv, st State) {
	for _, gs := range sp.GhostSets {
		func() {
			defer func() {
				if r := recover(); r != nil {
					if se, ok := r.(specError); ok {
						f.c.warn = append(f.c.warn, fmt.Sprintf("SPEC-ERROR %s:%d: %s", gs.C.File, gs.C.Line, se.msg))
						f.c.specErrors++
						return
					}
					panic(r)
				}
			}()
			g, ok := f.c.specs.Ghosts[gs.Ghost]
			if !ok {
				env.fail("unknown ghost variable %s", gs.Ghost)
			}
			v := env.eval(gs.C.E)
			v = env.fit(v, f.c.evalType(g.Type, env.pkg()))
			st["ghost$"+gs.Ghost] = f.term(v)
		}()
	}
}

// frameGoal: heap h is unchanged on everything that existed before the call
// (objects allocated during the call may be initialised freely).
func (f *frame) frameGoal(h string, after, before *Term, entry State) *Term {
	c := f.c
	if after.Sort.Kind == SArray && after.Sort.Key == RefSort {
		r := Var("r!q", IntSort)
		top := c.allocTop(entry)
		return Forall([]*Term{r}, Implies(mk("<", BoolSort, r, top), Eq(Select(after, r), Select(before, r))))
	}
	return Eq(after, before)
}

var debugPanics = false

var _ = token.NoPos
var _ = types.Typ
