package main

// stdlibTwin: names of standard-library packages that also occur as the name
// of a non-standard package in the dependency graph of goakt.
var stdlibTwin = map[string]bool{
	"atomic": true, "sync": true, "errors": true, "log": true, "time": true,
	"context": true, "hash": true, "types": true, "rand": true, "net": true,
	"http": true, "io": true, "sort": true, "maps": true, "slices": true,
	"strings": true, "bytes": true, "json": true, "binary": true, "url": true,
}
