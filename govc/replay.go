package main

// Counterexample replay (DESIGN §2.8): the solver's model of a failed
// obligation is rendered as an in-package Go test and run against the real
// code with `go test -overlay` (nothing is written into the repository).
//
// Supported: no-panic obligations, and ensures clauses of the shape
// [A ==>] result == E, for functions whose parameters are integers, booleans,
// slices of integers, strings (length only) and pointers to structs with
// such fields (one level). Everything else is reported without a failing
// input (no-failing-input-found).

import (
	"encoding/json"
	"fmt"
	"go/token"
	"go/types"
	"math/big"
	"os"
	"os/exec"
	"path/filepath"
	"regexp"
	"strings"
	"time"

	"golang.org/x/tools/go/ssa"
)

const replayElems = 160

type replayQuery struct {
	terms []string          // SMT terms to evaluate
	index map[string]int    // name -> position in terms
	vals  map[string]string // filled from the model
}

func (q *replayQuery) ask(name string, t *Term) {
	if _, ok := q.index[name]; ok {
		return
	}
	q.index[name] = len(q.terms)
	q.terms = append(q.terms, t.String())
}

var litRe = regexp.MustCompile(`^\(- (\d+)\)$`)

// smtLitToBig parses an SMT literal (Int or BitVec) to a number; signed
// interpretation for bit-vectors of the given width when signed is true.
func smtLitToBig(s string, signed bool) (*big.Int, bool) {
	s = strings.TrimSpace(s)
	if m := litRe.FindStringSubmatch(s); m != nil {
		v, ok := new(big.Int).SetString(m[1], 10)
		return v.Neg(v), ok
	}
	if strings.HasPrefix(s, "#x") {
		v, ok := new(big.Int).SetString(s[2:], 16)
		if ok && signed {
			w := uint(len(s[2:]) * 4)
			if v.Bit(int(w-1)) == 1 {
				v.Sub(v, new(big.Int).Lsh(big.NewInt(1), w))
			}
		}
		return v, ok
	}
	if strings.HasPrefix(s, "#b") {
		v, ok := new(big.Int).SetString(s[2:], 2)
		if ok && signed {
			w := uint(len(s[2:]))
			if v.Bit(int(w-1)) == 1 {
				v.Sub(v, new(big.Int).Lsh(big.NewInt(1), w))
			}
		}
		return v, ok
	}
	var a, w int64
	if n, _ := fmt.Sscanf(s, "(_ bv%d %d)", &a, &w); n == 2 {
		v := big.NewInt(a)
		if signed && v.Bit(int(w-1)) == 1 {
			v.Sub(v, new(big.Int).Lsh(big.NewInt(1), uint(w)))
		}
		return v, true
	}
	v, ok := new(big.Int).SetString(s, 10)
	return v, ok
}

// parseGetValue splits the answer of (get-value (t1 ... tn)) into n value strings.
func parseGetValue(out string, n int) []string {
	i := strings.Index(out, "((")
	if i < 0 {
		return nil
	}
	s := out[i+1:]
	var vals []string
	depth := 0
	start := -1
	for j := 0; j < len(s) && len(vals) < n; j++ {
		switch s[j] {
		case '(':
			if depth == 0 {
				start = j
			}
			depth++
		case ')':
			depth--
			if depth == 0 && start >= 0 {
				pair := s[start+1 : j]
				// pair = "<term> <value>": the value is the last balanced s-expression
				vals = append(vals, lastSexp(pair))
				start = -1
			}
			if depth < 0 {
				return vals
			}
		}
	}
	return vals
}

func lastSexp(s string) string {
	s = strings.TrimSpace(s)
	if strings.HasSuffix(s, ")") {
		depth := 0
		for i := len(s) - 1; i >= 0; i-- {
			switch s[i] {
			case ')':
				depth++
			case '(':
				depth--
				if depth == 0 {
					return s[i:]
				}
			}
		}
		return s
	}
	i := strings.LastIndexAny(s, " \t\n")
	return s[i+1:]
}

func goTypeStr(t types.Type, pkg *types.Package, imports map[string]bool) string {
	return types.TypeString(t, func(p *types.Package) string {
		if p == pkg {
			return ""
		}
		imports[p.Path()] = true
		return p.Name()
	})
}

func (c *Ctx) tryReplay(res *FuncResult, o *Obligation, dir string) bool {
	if res == nil || res.Fn == nil || o.Result != "sat" || os.Getenv("GOVC_NOREPLAY") != "" {
		return false
	}
	fn := res.Fn
	if fn.Origin() != nil || fn.Signature.TypeParams() != nil || (fn.Signature.Recv() != nil && hasTypeParams(fn.Signature.Recv().Type())) {
		return false // generic code: no concrete instantiation to run
	}
	kind := o.Kind
	var expected *Term
	if kind == "ensures" && o.Clause != nil {
		expected = c.equalityRHS(res, o)
		if expected == nil {
			return false
		}
	} else if kind != "no-panic" {
		return false
	}
	pkg := pkgOfFn(fn)
	if pkg == nil {
		return false
	}
	st0 := State{}
	q := &replayQuery{index: map[string]int{}}
	type pinfo struct {
		name string
		typ  types.Type
		term *Term
	}
	var ps []pinfo
	for i, p := range fn.Params {
		name := p.Name()
		if i < len(res.Spec.Params) {
			name = res.Spec.Params[i]
		}
		t := Var("in."+smtIdent(name), c.sortOf(p.Type()))
		ps = append(ps, pinfo{fmt.Sprintf("p%d", i), p.Type(), t})
	}
	// collect the terms whose values we need
	var typeAsserts []string // the asked heap cells hold values of their Go types
	var askVal func(prefix string, t types.Type, term *Term, depth int) bool
	askVal = func(prefix string, t types.Type, term *Term, depth int) bool {
		switch u := t.Underlying().(type) {
		case *types.Basic:
			if u.Info()&(types.IsInteger|types.IsBoolean) != 0 {
				q.ask(prefix, term)
				return true
			}
			if u.Info()&types.IsString != 0 {
				q.ask(prefix+".len", c.strLen(term))
				return true
			}
			return false
		case *types.Slice:
			if _, _, ok := intInfo(u.Elem()); !ok {
				q.ask(prefix+".len", c.slLen(term))
				return u.Elem().Underlying() != nil && depth == 0 && isPointerLike(u.Elem())
			}
			q.ask(prefix+".len", c.slLen(term))
			hn := "E$" + typeName(u.Elem())
			if _, declared := c.heapSort[hn]; !declared {
				return true
			}
			h := Var(hn+"@0", ArraySort(RefSort, ArraySort(c.idxSort(), c.sortOf(u.Elem()))))
			for i := 0; i < replayElems; i++ {
				el := Select(Select(h, c.slBase(term)), c.arith(token.ADD, c.slOff(term), c.idxConst(int64(i)), types.Typ[types.Int]))
				q.ask(fmt.Sprintf("%s[%d]", prefix, i), el)
				if tr := c.typeRange(el, u.Elem()); !isTrue(tr) {
					typeAsserts = append(typeAsserts, "(assert "+tr.String()+")\n")
				}
			}
			return true
		case *types.Pointer:
			stt, ok := u.Elem().Underlying().(*types.Struct)
			if !ok || depth > 0 {
				return ok
			}
			q.ask(prefix+".nil", Eq(term, IntLit(0)))
			for i := 0; i < stt.NumFields(); i++ {
				hn := c.fieldHeapName(u.Elem(), stt.Field(i).Name())
				if _, declared := c.heapSort[hn]; !declared {
					continue
				}
				h := Var(hn+"@0", ArraySort(RefSort, c.sortOf(stt.Field(i).Type())))
				askVal(prefix+"."+stt.Field(i).Name(), stt.Field(i).Type(), Select(h, term), depth+1)
			}
			return true
		}
		return false
	}
	_ = st0
	for _, p := range ps {
		if !askVal(p.name, p.typ, p.term, 0) {
			return false
		}
	}
	if expected != nil {
		q.ask("$expected", expected)
	}
	if len(q.terms) == 0 {
		return false
	}
	// re-run the query with get-value
	// prefer a small model: bound every length we ask for (dropped if unsat)
	var small strings.Builder
	for name, i := range q.index {
		if strings.HasSuffix(name, ".len") {
			if c.mode == ModeBV {
				small.WriteString(fmt.Sprintf("(assert (bvule %s (_ bv4096 64)))\n", q.terms[i]))
			} else {
				small.WriteString(fmt.Sprintf("(assert (<= %s 4096))\n", q.terms[i]))
			}
		}
	}
	base := c.smtText(o, nil)
	tmp, err := os.MkdirTemp("", "govc-replay-")
	if err != nil {
		return false
	}
	defer os.RemoveAll(tmp)
	qf := filepath.Join(tmp, "q.smt2")
	var vals []string
	for _, extra := range []string{small.String(), ""} {
		text := strings.Replace(base, "(check-sat)\n", strings.Join(typeAsserts, "")+extra+"(check-sat)\n(get-value ("+strings.Join(q.terms, " ")+"))\n", 1)
		os.WriteFile(qf, []byte(text), 0o644)
		for _, sv := range []string{"z3-new", "z3", "cvc5"} {
			args := []string{"-smt2", "-T:30", qf}
			if sv == "cvc5" {
				args = []string{"--tlimit=30000", "--produce-models", qf}
			}
			out, _ := exec.Command(sv, args...).CombinedOutput()
			so := string(out)
			if strings.HasPrefix(strings.TrimSpace(so), "sat") {
				vals = parseGetValue(so, len(q.terms))
				if len(vals) == len(q.terms) {
					break
				}
			}
			if strings.HasPrefix(strings.TrimSpace(so), "unsat") {
				break
			}
		}
		if len(vals) == len(q.terms) {
			break
		}
		if extra == "" {
			break
		}
	}
	if len(vals) != len(q.terms) {
		return false
	}
	get := func(name string) (string, bool) {
		i, ok := q.index[name]
		if !ok {
			return "", false
		}
		return vals[i], true
	}
	imports := map[string]bool{"testing": true}
	var render func(prefix string, t types.Type, depth int) (string, bool)
	render = func(prefix string, t types.Type, depth int) (string, bool) {
		ts := goTypeStr(t, pkg, imports)
		switch u := t.Underlying().(type) {
		case *types.Basic:
			if u.Info()&types.IsBoolean != 0 {
				v, _ := get(prefix)
				return fmt.Sprintf("%s(%s)", ts, v), true
			}
			if u.Info()&types.IsInteger != 0 {
				v, ok := get(prefix)
				if !ok {
					return "", false
				}
				_, signed, _ := intInfo(t)
				b, ok := smtLitToBig(v, signed)
				if !ok {
					return "", false
				}
				return fmt.Sprintf("%s(%s)", ts, b.String()), true
			}
			if u.Info()&types.IsString != 0 {
				v, _ := get(prefix + ".len")
				n, ok := smtLitToBig(v, true)
				if !ok || n.Sign() < 0 || n.Cmp(big.NewInt(1<<20)) > 0 {
					return "", false
				}
				imports["strings"] = true
				return fmt.Sprintf("%s(strings.Repeat(\"a\", %s))", ts, n.String()), true
			}
		case *types.Slice:
			v, _ := get(prefix + ".len")
			n, ok := smtLitToBig(v, true)
			if !ok || n.Sign() < 0 || n.Cmp(big.NewInt(1<<22)) > 0 {
				return "", false // huge allocation models are skipped
			}
			if n.Sign() == 0 {
				return fmt.Sprintf("%s{}", ts), true
			}
			if _, signed, isInt := intInfo(u.Elem()); isInt {
				var elems []string
				for i := 0; i < replayElems && int64(i) < n.Int64(); i++ {
					ev, ok := get(fmt.Sprintf("%s[%d]", prefix, i))
					if !ok {
						break
					}
					b, ok := smtLitToBig(ev, signed)
					if !ok {
						return "", false
					}
					elems = append(elems, b.String())
				}
				return fmt.Sprintf("func() %s { s := make(%s, %s); copy(s, %s{%s}); return s }()", ts, ts, n.String(), ts, strings.Join(elems, ", ")), true
			}
			if pt, ok := u.Elem().Underlying().(*types.Pointer); ok {
				if _, isSt := pt.Elem().Underlying().(*types.Struct); isSt {
					et := goTypeStr(pt.Elem(), pkg, imports)
					return fmt.Sprintf("func() %s { s := make(%s, %s); for i := range s { s[i] = &%s{} }; return s }()", ts, ts, n.String(), et), true
				}
			}
			return "", false
		case *types.Pointer:
			stt, ok := u.Elem().Underlying().(*types.Struct)
			if !ok || depth > 0 {
				if ok {
					return fmt.Sprintf("&%s{}", goTypeStr(u.Elem(), pkg, imports)), true
				}
				return "", false
			}
			isRecv := prefix == "p0" && fn.Signature.Recv() != nil
			if v, ok := get(prefix + ".nil"); ok && v == "true" && !isRecv {
				return "nil", true
			}
			var fs []string
			for i := 0; i < stt.NumFields(); i++ {
				f := stt.Field(i)
				if f.Name() == "_" {
					continue
				}
				if _, asked := q.index[prefix+"."+f.Name()]; !asked {
					if _, asked2 := q.index[prefix+"."+f.Name()+".len"]; !asked2 {
						if _, asked3 := q.index[prefix+"."+f.Name()+".nil"]; !asked3 {
							// pointer-typed fields that the code dereferences need an object
							if pt, ok := f.Type().Underlying().(*types.Pointer); ok {
								if _, isSt := pt.Elem().Underlying().(*types.Struct); isSt {
									fs = append(fs, fmt.Sprintf("%s: &%s{}", f.Name(), goTypeStr(pt.Elem(), pkg, imports)))
								}
							}
							continue
						}
					}
				}
				if lit, ok := render(prefix+"."+f.Name(), f.Type(), depth+1); ok {
					fs = append(fs, fmt.Sprintf("%s: %s", f.Name(), lit))
				}
			}
			return fmt.Sprintf("&%s{%s}", goTypeStr(u.Elem(), pkg, imports), strings.Join(fs, ", ")), true
		}
		return "", false
	}
	var argLits []string
	for _, p := range ps {
		lit, ok := render(p.name, p.typ, 0)
		if !ok {
			return false
		}
		argLits = append(argLits, lit)
	}
	// the call
	call := ""
	args := argLits
	if fn.Signature.Recv() != nil {
		call = fmt.Sprintf("(%s).%s(%s)", args[0], fn.Name(), strings.Join(args[1:], ", "))
	} else {
		call = fmt.Sprintf("%s(%s)", fn.Name(), strings.Join(args, ", "))
	}
	var body strings.Builder
	body.WriteString("\tdefer func() {\n\t\tif r := recover(); r != nil {\n\t\t\tt.Fatalf(\"govc replay: the call panics: %v\", r)\n\t\t}\n\t}()\n")
	if expected != nil {
		ev, _ := get("$expected")
		rt := fn.Signature.Results().At(0).Type()
		_, signed, isInt := intInfo(rt)
		if !isInt {
			return false
		}
		b, ok := smtLitToBig(ev, signed)
		if !ok {
			return false
		}
		body.WriteString(fmt.Sprintf("\tgot := %s\n\twant := %s(%s)\n\tif got != want {\n\t\tt.Fatalf(\"govc replay: contract clause violated: got %%v, the contract requires %%v\", got, want)\n\t}\n", call, goTypeStr(rt, pkg, imports), b.String()))
	} else {
		if fn.Signature.Results().Len() > 0 {
			lhs := strings.TrimSuffix(strings.Repeat("_, ", fn.Signature.Results().Len()), ", ")
			body.WriteString("\t" + lhs + " = " + call + "\n")
		} else {
			body.WriteString("\t" + call + "\n")
		}
	}
	var imps []string
	for p := range imports {
		if p != pkg.Path() {
			imps = append(imps, fmt.Sprintf("\t%q", p))
		}
	}
	sortStrings(imps)
	src := fmt.Sprintf("package %s\n\n// generated by govc from the solver model of obligation\n//   %s\n\nimport (\n%s\n)\n\nfunc TestGovcReplay(t *testing.T) {\n%s}\n", pkg.Name(), o.Name, strings.Join(imps, "\n"), body.String())
	// run it with an overlay
	rel := strings.TrimPrefix(pkg.Path(), modulePath)
	rel = strings.TrimPrefix(rel, "/")
	root := repoRoot()
	testPath := filepath.Join(tmp, "zz_govc_replay_test.go")
	os.WriteFile(testPath, []byte(src), 0o644)
	ov := map[string]map[string]string{"Replace": {filepath.Join(root, rel, "zz_govc_replay_test.go"): testPath}}
	ovb, _ := json.Marshal(ov)
	ovPath := filepath.Join(tmp, "overlay.json")
	os.WriteFile(ovPath, ovb, 0o644)
	cmd := exec.Command("go", "test", "-overlay", ovPath, "-vet=off", "-count=1", "-timeout", "120s", "-run", "^TestGovcReplay$", "./"+rel+"/")
	cmd.Dir = root
	cmd.Env = append(os.Environ(), "GOFLAGS=-mod=mod", "GOPROXY=off")
	done := make(chan struct{})
	var out []byte
	go func() {
		out, _ = cmd.CombinedOutput()
		close(done)
	}()
	select {
	case <-done:
	case <-time.After(10 * time.Minute):
		if cmd.Process != nil {
			cmd.Process.Kill()
		}
		<-done
	}
	so := string(out)
	o.Replay = &ReplayInfo{Cmd: "cd " + root + " && go test -overlay <overlay.json> -vet=off -count=1 -run '^TestGovcReplay$' ./" + rel + "/   (overlay maps " + rel + "/zz_govc_replay_test.go to replay_test.go.txt)", Output: so, TestSrc: src}
	return strings.Contains(so, "--- FAIL: TestGovcReplay")
}

func sortStrings(s []string) {
	for i := 1; i < len(s); i++ {
		for j := i; j > 0 && s[j] < s[j-1]; j-- {
			s[j], s[j-1] = s[j-1], s[j]
		}
	}
}

func isPointerLike(t types.Type) bool {
	_, ok := t.Underlying().(*types.Pointer)
	return ok
}

func hasTypeParams(t types.Type) bool {
	if p, ok := t.(*types.Pointer); ok {
		t = p.Elem()
	}
	if n, ok := t.(*types.Named); ok {
		return n.TypeParams().Len() > 0 || n.TypeArgs().Len() > 0
	}
	return false
}

// equalityRHS: for an ensures clause of the shape [A ==>] result == E the
// generator recorded E (evaluated in the post-state) on the obligation.
func (c *Ctx) equalityRHS(res *FuncResult, o *Obligation) *Term { return o.Expected }

var _ = ssa.BuilderMode(0)
