package main

// Lemma layer: pure statements over spec functions (and, through them, over
// contract postconditions), discharged like any other obligation.

import (
	"fmt"
	"path/filepath"
	"strings"
)

func runLemmas(id string, prog *Program, specs *SpecSet, opts solveOpts, known *KnownFile, baseline map[string]bool, seen map[string]bool) extraResult {
	res := extraResult{bySolver: map[string]int{}}
	for _, lm := range specs.Lemmas {
		if lm.Property != id {
			continue
		}
		mode := ModeInt
		if strings.HasPrefix(lm.Arith, "bv") {
			mode = ModeBV
		}
		c := newCtx(prog, specs, mode)
		c.curProp = id
		name := fmt.Sprintf("%s/lemma/%s", id, lm.Name)
		seen[name] = true
		r := oblReport{Name: name, Kind: "lemma", Pos: fmt.Sprintf("%s:%d", filepath.Base(lm.File), lm.Line), Clause: lm.C.Text}
		var goal *Term
		func() {
			defer func() {
				if rr := recover(); rr != nil {
					if se, ok := rr.(specError); ok {
						r.Status = "spec-error: " + se.msg
						return
					}
					panic(rr)
				}
			}()
			f := &frame{c: c, vals: nil, env: map[string]Val{}}
			st := State{}
			env := f.newSpecEnv(st, st)
			if sp := prog.ByPkg[lm.PkgPath]; sp != nil {
				env.pkgT = sp.Pkg
			}
			goal = env.evalBool(lm.C.E)
		}()
		res.n++
		if goal == nil {
			res.undecided++
			fmt.Printf("UNDECIDED %s: lemma %s: %s\n", id, lm.Name, r.Status)
			res.reports = append(res.reports, r)
			continue
		}
		o := &Obligation{Name: name, Kind: "lemma", NHyps: len(c.hyps), PC: True, Goal: goal, Pos: r.Pos, Clause: lm.C, Expect: "unsat"}
		c.solve(o, opts)
		secondChance(c, []*Obligation{o}, opts)
		r.Result, r.Solver, r.Time = o.Result, o.Solver, o.Time
		res.time += o.Time
		for a := range c.assume {
			res.assumptions = append(res.assumptions, a)
		}
		switch o.Result {
		case "unsat":
			res.discharged++
			res.bySolver[o.Solver]++
			r.Status = "discharged"
			if len(res.samples) < 1 {
				res.samples = append(res.samples, map[string]interface{}{"obligation": name, "smt2_head": headOf(o.SMT, 1200), "solver": o.Solver, "time_s": o.Time})
			}
		default:
			kfound := false
			for _, k := range known.Findings {
				if k.Property == id && k.Obligation == name {
					kfound = true
					fmt.Printf("KNOWN-FINDING: property=%s %s (%s)\n", id, k.What, name)
					r.Status = "known-finding"
					res.known++
					res.n--
				}
			}
			if kfound {
				break
			}
			if baseline[name] {
				res.violations++
				r.Status = "VIOLATION"
				dir := filepath.Join(verifDir(), "replays", id, smtIdent(strings.ReplaceAll(name, "/", "__")))
				writeReplayDir(dir, o, false)
				res.lines = append(res.lines, fmt.Sprintf("VIOLATION property=%s replay=%s no-failing-input-found", id, dir))
			} else {
				res.undecided++
				r.Status = "undecided"
				fmt.Printf("UNDECIDED %s: lemma %s is %s and not in the baseline set\n", id, lm.Name, o.Result)
			}
		}
		res.reports = append(res.reports, r)
	}
	return res
}

