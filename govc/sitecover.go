package main

import (
	"fmt"
	"sort"

	"golang.org/x/tools/go/ssa"
)

// checkSiteAnchors validates the call-site anchors of a contract after the
// function has been executed symbolically:
//   - a site clause whose (callee, ordinal) does not exist in the function is a
//     stale anchor (spec error, the check is broken - never a silent pass);
//   - "cover" rule: when a contract annotates at least one call of a callee K
//     with a ghost update or an assumption - i.e. it counts the calls of K or
//     models its effect on ghost state - every call of K in that function must
//     be annotated; an unannotated one would leave the ghost state stale. This
//     is an obligation of its own ("cover(K)"), decided on the SSA.
func (f *frame) checkSiteAnchors() {
	sp := f.spec
	if sp == nil || len(sp.Sites) == 0 {
		return
	}
	for _, s := range sp.Sites {
		if !s.Used {
			f.c.warn = append(f.c.warn, fmt.Sprintf("SPEC-ERROR %s: call-site anchor does not resolve: call %d of %s", sp.Key, s.Ord, s.Callee))
			f.c.specErrors++
		}
	}
	modelled := map[string]bool{}
	covered := map[string]map[int]bool{}
	for _, s := range sp.Sites {
		// a callee whose calls the contract counts or models on ghost state
		if s.Kind == "ghost" || s.Kind == "assume" {
			modelled[s.Callee] = true
		}
		if covered[s.Callee] == nil {
			covered[s.Callee] = map[int]bool{}
		}
		covered[s.Callee][s.Ord] = true
	}
	if len(modelled) == 0 {
		return
	}
	count := map[string]int{}
	for _, b := range f.fn.Blocks {
		for _, in := range b.Instrs {
			ci, ok := in.(ssa.CallInstruction)
			if !ok {
				continue
			}
			k := callKey(ci.Common())
			if modelled[k] {
				count[k]++
			}
		}
	}
	var keys []string
	for k := range count {
		keys = append(keys, k)
	}
	sort.Strings(keys)
	for _, k := range keys {
		// one obligation per modelled callee: every call of it is annotated
		// (decided on the SSA; it is in the baseline, so a new unannotated call
		// - which would leave the ghost history stale - is reported)
		goal := True
		for i := 1; i <= count[k]; i++ {
			if !covered[k][i] {
				goal = False
				f.c.warn = append(f.c.warn, fmt.Sprintf("%s: call %d of %s is not annotated although the contract models %s on ghost state", sp.Key, i, k, k))
			}
		}
		o := f.emit("cover", f.oblName("cover("+k+")"), True, goal, f.fn.Pos(), nil)
		// decided on the SSA, no solver involved
		o.Static = true
		o.Solver = "ssa"
		if goal == True {
			o.Result = "unsat"
		} else {
			o.Result = "sat"
			o.Output = "a call of " + k + " is not annotated although the contract models it on ghost state"
		}
	}
}
