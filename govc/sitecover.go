package main

import (
	"fmt"
	"sort"

	"golang.org/x/tools/go/ssa"
)

// checkSiteAnchors validates the call-site anchors of a contract after the
// function has been executed symbolically:
//   - a site clause whose (callee, ordinal) does not exist in the function is a
//     stale anchor (spec error, the check is broken - never a silent pass);
//   - "cover" rule: when a contract annotates at least one call of an interface
//     method M ("invoke M") with a ghost update or an assumption - i.e. it
//     models the effect of M on ghost state - every call of M in that function
//     must be annotated; an unannotated one would leave the ghost state stale.
func (f *frame) checkSiteAnchors() {
	sp := f.spec
	if sp == nil || len(sp.Sites) == 0 {
		return
	}
	for _, s := range sp.Sites {
		if !s.Used {
			f.c.warn = append(f.c.warn, fmt.Sprintf("SPEC-ERROR %s: call-site anchor does not resolve: call %d of %s", sp.Key, s.Ord, s.Callee))
			f.c.specErrors++
		}
	}
	modelled := map[string]bool{}
	covered := map[string]map[int]bool{}
	for _, s := range sp.Sites {
		if len(s.Callee) > 7 && s.Callee[:7] == "invoke " && (s.Kind == "ghost" || s.Kind == "assume") {
			modelled[s.Callee] = true
		}
		if covered[s.Callee] == nil {
			covered[s.Callee] = map[int]bool{}
		}
		covered[s.Callee][s.Ord] = true
	}
	if len(modelled) == 0 {
		return
	}
	count := map[string]int{}
	for _, b := range f.fn.Blocks {
		for _, in := range b.Instrs {
			ci, ok := in.(ssa.CallInstruction)
			if !ok {
				continue
			}
			k := callKey(ci.Common())
			if modelled[k] {
				count[k]++
			}
		}
	}
	var keys []string
	for k := range count {
		keys = append(keys, k)
	}
	sort.Strings(keys)
	for _, k := range keys {
		for i := 1; i <= count[k]; i++ {
			if !covered[k][i] {
				f.c.warn = append(f.c.warn, fmt.Sprintf("SPEC-ERROR %s: call %d of %s is not annotated although the contract models %s on ghost state", sp.Key, i, k, k))
				f.c.specErrors++
			}
		}
	}
}
