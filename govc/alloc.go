package main

// bumpAlloc: an unknown amount of allocation happened (a call); the
// allocation frontier only moves forward.
func (c *Ctx) bumpAlloc(st State) {
	old := c.allocTop(st)
	nt := c.fresh("$alloc", IntSort)
	c.addHyp(mk(">=", BoolSort, nt, old))
	st["$alloc"] = nt
}
