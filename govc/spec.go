package main

// Contract files: comment-only Go files guarded by //go:build verif, one per
// package under contract (<pkg>/zz_verif_contracts.go). Every line of
// interest starts with "//@".  Grammar (one item per line, '\' continues):
//
//   //@ property C08
//   //@ spec func name(a T, b U) R = expr
//   //@ func (*T).method(recv, p1, p2)      -- names bind positionally
//   //@   arith bv | int
//   //@   requires [label:] expr
//   //@   ensures  [label:] expr
//   //@   modifies heap, heap, ...
//   //@   loop N invariant [label:] expr
//   //@   loop N decreases expr
//   //@   flag value...
//
// Expressions are Go expressions extended with  A ==> B,
// forall x T, y U :: e,  exists ..., old(e), result / result0.., ite(c,a,b),
// implies(a,b), has(m,k).

import (
	"fmt"
	"go/ast"
	"go/parser"
	"os"
	"path/filepath"
	"regexp"
	"strconv"
	"strings"
)

type Clause struct {
	Label string
	Text  string
	Line  int
	File  string
	E     SExpr
}

type LoopSpec struct {
	Invariants []*Clause
	Decreases  *Clause
}

type FuncSpec struct {
	PkgPath  string
	Key      string
	Params   []string
	Property string
	Arith    string
	Requires []*Clause
	Ensures  []*Clause
	Modifies []string
	HasMod   bool
	Loops    map[int]*LoopSpec
	Flags    map[string]string
	Sites    []*SiteSpec
	GhostSets []*SiteSpec
	GhostInits []*SiteSpec // ghost variables (re)initialised at function entry: local protocol flags
	Line     int
	File     string
}

// SiteSpec attaches an assertion or ghost update to a call site:
//   //@   at call N of <callee key> assert expr
//   //@   at call N of <callee key> ghost name = expr
type SiteSpec struct {
	Callee string
	Ord    int
	Kind   string // assert | ghost | assume-unreachable
	Ghost  string
	C      *Clause
	Used   bool
}

type SpecParam struct{ Name, Type string }

type SpecFunc struct {
	Name     string
	Params   []SpecParam
	Result   string
	Body     *Clause
	Uninterp bool
	Rec      bool
}

type GhostVar struct {
	Name, Type string
	Init       string
	PkgPath    string
	Local      bool // private to one invocation: never in a mod-set
}

type LemmaSpec struct {
	Property string
	Name     string
	Arith    string
	PkgPath  string
	C        *Clause
	Line     int
	File     string
}

type SpecSet struct {
	Funcs     map[string]*FuncSpec // pkgPath::key
	SpecFuncs map[string]*SpecFunc // pkgPath::name
	Order     []*FuncSpec
	Ghosts    map[string]*GhostVar
	Files     []string
	Lemmas    []*LemmaSpec
	Structs   []*StructSpec
}

// StructSpec is a structural obligation decided on the SSA without a solver.
type StructSpec struct {
	Property string
	Kind     string
	Subject  string
	Items    []string
	PkgPath  string
	Line     int
	File     string
}

type SExpr interface{}
type SQuant struct {
	Forall bool
	Vars   []SpecParam
	Body   SExpr
}
type SImpl struct{ A, B SExpr }
type SGo struct{ E ast.Expr }
type SAnd struct{ Es []SExpr }

var labelRe = regexp.MustCompile(`^([A-Za-z_][A-Za-z0-9_\-#.]*):\s+(.*)$`)

func newSpecSet() *SpecSet {
	return &SpecSet{Funcs: map[string]*FuncSpec{}, SpecFuncs: map[string]*SpecFunc{}, Ghosts: map[string]*GhostVar{}}
}

func (ss *SpecSet) loadFile(path, pkgPath string) error {
	data, err := os.ReadFile(path)
	if err != nil {
		return err
	}
	ss.Files = append(ss.Files, path)
	var lines []string
	var lineNos []int
	raw := strings.Split(string(data), "\n")
	for i := 0; i < len(raw); i++ {
		l := strings.TrimSpace(raw[i])
		if !strings.HasPrefix(l, "//@") {
			continue
		}
		l = strings.TrimSpace(strings.TrimPrefix(l, "//@"))
		no := i + 1
		for strings.HasSuffix(l, "\\") && i+1 < len(raw) {
			nx := strings.TrimSpace(raw[i+1])
			if !strings.HasPrefix(nx, "//@") {
				break
			}
			l = strings.TrimSuffix(l, "\\") + " " + strings.TrimSpace(strings.TrimPrefix(nx, "//@"))
			i++
		}
		if l == "" || strings.HasPrefix(l, "--") {
			continue
		}
		lines = append(lines, l)
		lineNos = append(lineNos, no)
	}
	prop := ""
	var cur *FuncSpec
	mkClause := func(text string, ln int) (*Clause, error) {
		c := &Clause{Text: text, Line: ln, File: path}
		if m := labelRe.FindStringSubmatch(text); m != nil && !strings.HasPrefix(m[2], ":") {
			c.Label = m[1]
			c.Text = m[2]
		}
		e, err := parseSExpr(c.Text)
		if err != nil {
			return nil, fmt.Errorf("%s:%d: %v in %q", path, ln, err, c.Text)
		}
		c.E = e
		return c, nil
	}
	for i, l := range lines {
		ln := lineNos[i]
		word, rest := splitWord(l)
		switch word {
		case "property":
			prop = strings.TrimSpace(rest)
			cur = nil
		case "load":
			cur = nil // extra root package; handled by discoverContracts
		case "structural":
			// structural <kind> <subject>: item, item, ...   (kinds: writers, callers, nocall)
			cur = nil
			j := strings.Index(rest, ": ") // (a subject may contain "::")
			if j < 0 {
				return fmt.Errorf("%s:%d: structural needs 'kind subject: items'", path, ln)
			}
			kind, subj := splitWord(rest[:j])
			st := &StructSpec{Property: prop, Kind: kind, Subject: strings.TrimSpace(subj), PkgPath: pkgPath, Line: ln, File: path}
			for _, it := range splitTop(rest[j+1:], ',') {
				if it = strings.TrimSpace(it); it != "" {
					st.Items = append(st.Items, it)
				}
			}
			ss.Structs = append(ss.Structs, st)
		case "package":
			// assumed contracts on dependencies: switch the package the following
			// blocks are keyed under
			pkgPath = strings.TrimSpace(rest)
			cur = nil
		case "lemma":
			// lemma NAME [bv|int]: expr
			cur = nil
			j := strings.Index(rest, ":")
			if j < 0 {
				return fmt.Errorf("%s:%d: lemma needs 'name [bv|int]: expr'", path, ln)
			}
			hdr := strings.Fields(rest[:j])
			if len(hdr) == 0 {
				return fmt.Errorf("%s:%d: lemma needs a name", path, ln)
			}
			lm := &LemmaSpec{Property: prop, Name: hdr[0], Line: ln, File: path, PkgPath: pkgPath, Arith: "int"}
			if len(hdr) > 1 {
				lm.Arith = hdr[1]
			}
			c, err := mkClause(strings.TrimSpace(rest[j+1:]), ln)
			if err != nil {
				return err
			}
			lm.C = c
			ss.Lemmas = append(ss.Lemmas, lm)
		case "spec":
			w2, r2 := splitWord(rest)
			if w2 == "ufunc" {
				// uninterpreted specification function: spec ufunc name(a T) R
				sf, err := parseSpecFunc(r2 + " = true")
				if err != nil {
					return fmt.Errorf("%s:%d: %v", path, ln, err)
				}
				sf.Uninterp = true
				sf.Body = nil
				ss.SpecFuncs[pkgPath+"::"+sf.Name] = sf
				cur = nil
				continue
			}
			isRec := false
			if w2 == "rec" {
				isRec = true
				w2, r2 = splitWord(r2)
			}
			if w2 != "func" {
				return fmt.Errorf("%s:%d: expected 'spec func'", path, ln)
			}
			sf, err := parseSpecFunc(r2)
			if err != nil {
				return fmt.Errorf("%s:%d: %v", path, ln, err)
			}
			sf.Rec = isRec
			c, err := mkClause(sf.Body.Text, ln)
			if err != nil {
				return err
			}
			sf.Body = c
			ss.SpecFuncs[pkgPath+"::"+sf.Name] = sf
			cur = nil
		case "ghost":
			// ghost var name T [= init]
			w2, r2 := splitWord(rest)
			if w2 == "local" {
				// ghost local name T : a specification variable private to one
				// invocation of the function whose site clauses assign it (a
				// captured reading, a per-call flag). It is not part of any
				// mod-set: calls - nested invocations included - never change it.
				name, typ := splitWord(r2)
				ss.Ghosts[name] = &GhostVar{Name: name, Type: strings.TrimSpace(typ), PkgPath: pkgPath, Local: true}
				localGhosts[name] = true
				continue
			}
			if w2 != "var" && cur != nil {
				// function-level ghost update: ghost name = expr (at function exit)
				//                        or:   ghost entry name = expr (at function entry)
				atEntry := false
				body := rest
				if w2 == "entry" {
					atEntry = true
					body = r2
				}
				j := strings.Index(body, "=")
				if j < 0 {
					return fmt.Errorf("%s:%d: ghost update needs '='", path, ln)
				}
				c, err := mkClause(strings.TrimSpace(body[j+1:]), ln)
				if err != nil {
					return err
				}
				gs := &SiteSpec{Kind: "ghost", Ghost: strings.TrimSpace(body[:j]), C: c}
				if atEntry {
					cur.GhostInits = append(cur.GhostInits, gs)
				} else {
					cur.GhostSets = append(cur.GhostSets, gs)
				}
				continue
			}
			if w2 != "var" {
				return fmt.Errorf("%s:%d: expected 'ghost var'", path, ln)
			}
			name, r3 := splitWord(r2)
			typ := r3
			init := ""
			if j := strings.Index(r3, "="); j >= 0 {
				typ = strings.TrimSpace(r3[:j])
				init = strings.TrimSpace(r3[j+1:])
			}
			ss.Ghosts[name] = &GhostVar{Name: name, Type: typ, Init: init, PkgPath: pkgPath}
		case "func":
			key, params, err := parseFuncHeader(rest)
			if err != nil {
				return fmt.Errorf("%s:%d: %v", path, ln, err)
			}
			cur = &FuncSpec{PkgPath: pkgPath, Key: key, Params: params, Property: prop, Loops: map[int]*LoopSpec{}, Flags: map[string]string{}, Line: ln, File: path}
			if _, dup := ss.Funcs[pkgPath+"::"+key]; dup {
				return fmt.Errorf("%s:%d: duplicate contract for %s", path, ln, key)
			}
			ss.Funcs[pkgPath+"::"+key] = cur
			ss.Order = append(ss.Order, cur)
		default:
			if cur == nil {
				return fmt.Errorf("%s:%d: clause %q outside a func block", path, ln, word)
			}
			switch word {
			case "arith":
				cur.Arith = strings.TrimSpace(rest)
			case "requires", "ensures":
				c, err := mkClause(rest, ln)
				if err != nil {
					return err
				}
				if word == "requires" {
					cur.Requires = append(cur.Requires, c)
				} else {
					cur.Ensures = append(cur.Ensures, c)
				}
			case "modifies":
				cur.HasMod = true
				for _, m := range splitTop(rest, ',') {
					if m = strings.TrimSpace(m); m != "" && m != "nothing" {
						cur.Modifies = append(cur.Modifies, m)
					}
				}
			case "loop":
				ns, r2 := splitWord(rest)
				n, err := strconv.Atoi(ns)
				if err != nil {
					return fmt.Errorf("%s:%d: loop ordinal: %v", path, ln, err)
				}
				kind, r3 := splitWord(r2)
				c, err := mkClause(r3, ln)
				if err != nil {
					return err
				}
				ls := cur.Loops[n]
				if ls == nil {
					ls = &LoopSpec{}
					cur.Loops[n] = ls
				}
				switch kind {
				case "invariant":
					ls.Invariants = append(ls.Invariants, c)
				case "decreases":
					ls.Decreases = c
				default:
					return fmt.Errorf("%s:%d: unknown loop clause %q", path, ln, kind)
				}
			case "at":
				// at call N of KEY assert expr | ghost name = expr
				w2, r2 := splitWord(rest)
				if w2 != "call" {
					return fmt.Errorf("%s:%d: expected 'at call'", path, ln)
				}
				ns, r3 := splitWord(r2)
				n, err := strconv.Atoi(ns)
				if err != nil {
					return fmt.Errorf("%s:%d: call ordinal: %v", path, ln, err)
				}
				w4, r4 := splitWord(r3)
				if w4 != "of" {
					return fmt.Errorf("%s:%d: expected 'of'", path, ln)
				}
				// callee key may contain spaces only inside parens: take up to " assert "/" ghost "/" unreachable"
				idx, kind := -1, ""
				for _, k := range []string{" assert ", " ghost ", " assume ", " interference "} {
					if j := strings.Index(r4, k); j >= 0 && (idx < 0 || j < idx) {
						idx, kind = j, strings.TrimSpace(k)
					}
				}
				if idx < 0 {
					return fmt.Errorf("%s:%d: expected assert/ghost/assume in site clause", path, ln)
				}
				st := &SiteSpec{Callee: strings.TrimSpace(r4[:idx]), Ord: n, Kind: kind}
				body := strings.TrimSpace(r4[idx+len(kind)+1:])
				if kind == "ghost" {
					j := strings.Index(body, "=")
					if j < 0 {
						return fmt.Errorf("%s:%d: ghost update needs '='", path, ln)
					}
					st.Ghost = strings.TrimSpace(body[:j])
					body = strings.TrimSpace(body[j+1:])
				}
				if kind == "interference" {
					// at call N of KEY interference T.f[, T.g]: other goroutines may
					// act on these fields while the call runs (the most general
					// rely): the named heaps are arbitrary after the call
					st.Ghost = body
					st.C = &Clause{Text: body, Line: ln, File: path}
					cur.Sites = append(cur.Sites, st)
					continue
				}
				c, err := mkClause(body, ln)
				if err != nil {
					return err
				}
				st.C = c
				cur.Sites = append(cur.Sites, st)
			case "ghost":
				// ghost name = expr : ghost variable updated at function exit
				j := strings.Index(rest, "=")
				if j < 0 {
					return fmt.Errorf("%s:%d: ghost update needs '='", path, ln)
				}
				c, err := mkClause(strings.TrimSpace(rest[j+1:]), ln)
				if err != nil {
					return err
				}
				cur.GhostSets = append(cur.GhostSets, &SiteSpec{Kind: "ghost", Ghost: strings.TrimSpace(rest[:j]), C: c})
			default:
				cur.Flags[word] = strings.TrimSpace(rest)
			}
		}
	}
	return nil
}

func splitWord(s string) (string, string) {
	s = strings.TrimSpace(s)
	i := strings.IndexAny(s, " \t")
	if i < 0 {
		return s, ""
	}
	return s[:i], strings.TrimSpace(s[i+1:])
}

var funcHdrRe = regexp.MustCompile(`^(.*?)\(([^()]*)\)\s*$`)

func parseFuncHeader(s string) (string, []string, error) {
	s = strings.TrimSpace(s)
	// key is everything up to the last "(...)" group
	j := strings.LastIndex(s, "(")
	if j <= 0 || !strings.HasSuffix(s, ")") {
		return "", nil, fmt.Errorf("bad func header %q", s)
	}
	key := strings.TrimSpace(s[:j])
	var ps []string
	for _, p := range strings.Split(s[j+1:len(s)-1], ",") {
		if p = strings.TrimSpace(p); p != "" {
			ps = append(ps, p)
		}
	}
	return key, ps, nil
}

func parseSpecFunc(s string) (*SpecFunc, error) {
	eq := strings.Index(s, " = ")
	if eq < 0 {
		return nil, fmt.Errorf("spec func needs ' = body'")
	}
	hdr, body := strings.TrimSpace(s[:eq]), strings.TrimSpace(s[eq+3:])
	lp := strings.Index(hdr, "(")
	rp := strings.LastIndex(hdr, ")")
	if lp < 0 || rp < lp {
		return nil, fmt.Errorf("bad spec func header %q", hdr)
	}
	sf := &SpecFunc{Name: strings.TrimSpace(hdr[:lp]), Result: strings.TrimSpace(hdr[rp+1:]), Body: &Clause{Text: body}}
	for _, p := range splitTop(hdr[lp+1:rp], ',') {
		p = strings.TrimSpace(p)
		if p == "" {
			continue
		}
		n, t := splitWord(p)
		sf.Params = append(sf.Params, SpecParam{n, t})
	}
	return sf, nil
}

// splitTop splits s on sep at nesting depth 0.
func splitTop(s string, sep byte) []string {
	var out []string
	depth, last := 0, 0
	inStr := byte(0)
	for i := 0; i < len(s); i++ {
		c := s[i]
		if inStr != 0 {
			if c == '\\' {
				i++
			} else if c == inStr {
				inStr = 0
			}
			continue
		}
		switch c {
		case '"', '\'', '`':
			inStr = c
		case '(', '[', '{':
			depth++
		case ')', ']', '}':
			depth--
		default:
			if c == sep && depth == 0 {
				out = append(out, s[last:i])
				last = i + 1
			}
		}
	}
	out = append(out, s[last:])
	return out
}

// indexTop finds the first occurrence of tok at depth 0, or -1.
func indexTop(s, tok string) int {
	depth := 0
	inStr := byte(0)
	for i := 0; i < len(s); i++ {
		c := s[i]
		if inStr != 0 {
			if c == '\\' {
				i++
			} else if c == inStr {
				inStr = 0
			}
			continue
		}
		switch c {
		case '"', '\'', '`':
			inStr = c
		case '(', '[', '{':
			depth++
		case ')', ']', '}':
			depth--
		}
		if depth == 0 && strings.HasPrefix(s[i:], tok) {
			return i
		}
	}
	return -1
}

func parseSExpr(s string) (SExpr, error) {
	s = strings.TrimSpace(s)
	for _, q := range []string{"forall ", "exists "} {
		if strings.HasPrefix(s, q) {
			j := indexTop(s, "::")
			if j < 0 {
				return nil, fmt.Errorf("quantifier without '::'")
			}
			var vars []SpecParam
			for _, v := range splitTop(s[len(q):j], ',') {
				n, t := splitWord(v)
				if n == "" || t == "" {
					return nil, fmt.Errorf("bad binder %q", v)
				}
				vars = append(vars, SpecParam{n, t})
			}
			body, err := parseSExpr(s[j+2:])
			if err != nil {
				return nil, err
			}
			return &SQuant{Forall: q == "forall ", Vars: vars, Body: body}, nil
		}
	}
	jq := -1
	for _, q := range []string{"&& forall ", "&& exists "} {
		if j := indexTop(s, q); j >= 0 && (jq < 0 || j < jq) {
			jq = j
		}
	}
	if j := indexTop(s, "==>"); j >= 0 && (jq < 0 || j < jq) {
		a, err := parseSExpr(s[:j])
		if err != nil {
			return nil, err
		}
		b, err := parseSExpr(s[j+3:])
		if err != nil {
			return nil, err
		}
		return &SImpl{a, b}, nil
	}
	// a top-level "&&" with a quantified conjunct: split so that the
	// quantifier is parsed by us.
	// (the quantifier's scope extends to the end of the expression)
	for _, q := range []string{"&& forall ", "&& exists "} {
		if j := indexTop(s, q); j >= 0 {
			a, err := parseSExpr(s[:j])
			if err != nil {
				return nil, err
			}
			b, err := parseSExpr(s[j+2:])
			if err != nil {
				return nil, err
			}
			return &SAnd{[]SExpr{a, b}}, nil
		}
	}
	// implications / quantifiers nested in parentheses: parse the boolean
	// structure ourselves (||, &&, !, parentheses), Go parses the leaves
	if strings.Contains(s, "==>") || strings.Contains(s, "forall ") || strings.Contains(s, "exists ") {
		if parts := splitTopStr(s, "||"); len(parts) > 1 {
			var es []SExpr
			for _, p := range parts {
				e, err := parseSExpr(p)
				if err != nil {
					return nil, err
				}
				es = append(es, e)
			}
			return &SOr{es}, nil
		}
		if parts := splitTopStr(s, "&&"); len(parts) > 1 {
			var es []SExpr
			for _, p := range parts {
				e, err := parseSExpr(p)
				if err != nil {
					return nil, err
				}
				es = append(es, e)
			}
			return &SAnd{es}, nil
		}
		if strings.HasPrefix(s, "!") {
			rest := strings.TrimSpace(s[1:])
			if strings.HasPrefix(rest, "(") && matchingParen(rest) == len(rest)-1 {
				e, err := parseSExpr(rest)
				if err != nil {
					return nil, err
				}
				return &SNot{e}, nil
			}
		}
		if strings.HasPrefix(s, "(") && matchingParen(s) == len(s)-1 {
			return parseSExpr(s[1 : len(s)-1])
		}
	}
	e, err := parser.ParseExpr(s)
	if err != nil {
		return nil, err
	}
	return &SGo{e}, nil
}

type SOr struct{ Es []SExpr }
type SNot struct{ E SExpr }

// matchingParen returns the index of the ')' matching the '(' at s[0], or -1.
func matchingParen(s string) int {
	depth := 0
	inStr := byte(0)
	for i := 0; i < len(s); i++ {
		c := s[i]
		if inStr != 0 {
			if c == '\\' {
				i++
			} else if c == inStr {
				inStr = 0
			}
			continue
		}
		switch c {
		case '"', '\'', '`':
			inStr = c
		case '(', '[', '{':
			depth++
		case ')', ']', '}':
			depth--
			if depth == 0 {
				return i
			}
		}
	}
	return -1
}

// contractFiles finds zz_verif_contracts*.go under root for the given package dirs.
func contractFiles(root string, pkgDirs []string) []string {
	var out []string
	for _, d := range pkgDirs {
		ms, _ := filepath.Glob(filepath.Join(root, d, "zz_verif_contracts*.go"))
		out = append(out, ms...)
	}
	return out
}

// splitTopStr splits s on a multi-character separator at nesting depth 0.
func splitTopStr(s, sep string) []string {
	var out []string
	for {
		j := indexTop(s, sep)
		if j < 0 {
			out = append(out, s)
			return out
		}
		out = append(out, s[:j])
		s = s[j+len(sep):]
	}
}
