package main

// havocAllExcept: every heap in the state becomes arbitrary, except those the
// contract under verification declares preserved (closed by structural
// obligations) - a callee whose mod-set is "everything" must not override them.
func (c *Ctx) havocAllExcept(st State, kept map[string]bool) {
	saved := map[string]*Term{}
	for h := range kept {
		if v, ok := st[h]; ok {
			saved[h] = v
		}
	}
	c.havocAll(st)
	for h, v := range saved {
		st[h] = v
	}
}
