package main

import (
	"go/types"

	"golang.org/x/tools/go/ssa"
)

var nonNilGlobalCache = map[*ssa.Global]int{} // 0 unknown, 1 yes, 2 no

// nonNilErrorGlobal reports whether package-level variable g (of an interface
// type) is provably non-nil at all times: its only store in the whole package
// is in the package initialiser and stores the result of a constructor that
// never returns nil (errors.New, fmt.Errorf) or a freshly boxed value.
// This is read off the SSA on every run (a derived fact, not an assumption).
func (c *Ctx) nonNilErrorGlobal(g *ssa.Global) bool {
	if v, ok := nonNilGlobalCache[g]; ok {
		return v == 1
	}
	res := 2
	defer func() { nonNilGlobalCache[g] = res }()
	if _, ok := deref(g.Type()).Underlying().(*types.Interface); !ok {
		return false
	}
	pkg := g.Pkg
	if pkg == nil {
		return false
	}
	stores := 0
	okStores := 0
	var visit func(fn *ssa.Function)
	seen := map[*ssa.Function]bool{}
	visit = func(fn *ssa.Function) {
		if fn == nil || seen[fn] {
			return
		}
		seen[fn] = true
		for _, b := range fn.Blocks {
			for _, in := range b.Instrs {
				// any use of the global's address other than load/store makes it unknown
				for _, op := range in.Operands(nil) {
					if op == nil || *op != ssa.Value(g) {
						continue
					}
					switch u := in.(type) {
					case *ssa.Store:
						if u.Addr != g {
							stores += 100 // the address itself is stored somewhere
						}
					case *ssa.UnOp, *ssa.DebugRef:
					default:
						stores += 100 // escapes
					}
				}
				if st, ok := in.(*ssa.Store); ok && st.Addr == g {
					stores++
					if fn.Name() == "init" && fn.Pkg == pkg && nonNilValue(st.Val) {
						okStores++
					}
				}
			}
		}
		for _, an := range fn.AnonFuncs {
			visit(an)
		}
	}
	for _, fn := range allFuncsOf(c.prog, pkg.Pkg.Path()) {
		visit(fn)
	}
	if init := pkg.Func("init"); init != nil {
		visit(init)
	}
	// the address must not escape
	if refs := g.Referrers(); refs != nil {
		for _, r := range *refs {
			switch r.(type) {
			case *ssa.Store, *ssa.UnOp, *ssa.DebugRef:
			default:
				return false
			}
		}
	}
	if stores == 1 && okStores == 1 {
		res = 1
		return true
	}
	return false
}

func nonNilValue(v ssa.Value) bool {
	switch x := v.(type) {
	case *ssa.MakeInterface:
		return true
	case *ssa.Call:
		if callee := x.Common().StaticCallee(); callee != nil {
			switch fullName(callee) {
			case "errors::New", "fmt::Errorf":
				return true
			}
		}
	case *ssa.ChangeInterface:
		return nonNilValue(x.X)
	}
	return false
}
