package main

import (
	"fmt"
	"os"
)

// cmdMods prints the computed mod-set of a function (debugging aid).
func cmdMods(args []string) {
	prog, err := loadProgram([]string{args[0]})
	if err != nil {
		fmt.Fprintln(os.Stderr, err)
		return
	}
	c := newCtx(prog, newSpecSet(), ModeInt)
	for _, p := range prog.Pkgs {
		if fn := prog.lookupFunc(p.PkgPath, args[1]); fn != nil {
			ms := c.modsOf(fn)
			fmt.Println("all:", ms.all, "count:", len(ms.names))
			for _, n := range ms.list() {
				fmt.Println(" ", n)
			}
			return
		}
	}
	fmt.Println("not found")
}
