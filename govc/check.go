package main

import (
	"encoding/json"
	"flag"
	"fmt"
	"io/fs"
	"os"
	"path/filepath"
	"sort"
	"strconv"
	"strings"
	"time"
)

const modulePath = "github.com/tochemey/goakt/v4"

func verifDir() string {
	if d := os.Getenv("GOVC_VERIF"); d != "" {
		return d
	}
	return "/verif"
}

type contractFile struct {
	Path    string
	Dir     string // relative package dir
	PkgPath string
	Props   map[string]bool
	Loads   map[string][]string // property -> extra root packages
}

func discoverContracts(root string) []contractFile {
	var out []contractFile
	filepath.WalkDir(root, func(p string, d fs.DirEntry, err error) error {
		if err != nil {
			return nil
		}
		if d.IsDir() {
			if d.Name() == ".git" || d.Name() == "node_modules" {
				return filepath.SkipDir
			}
			return nil
		}
		if strings.HasPrefix(d.Name(), "zz_verif_contracts") && strings.HasSuffix(d.Name(), ".go") {
			rel, _ := filepath.Rel(root, filepath.Dir(p))
			cf := contractFile{Path: p, Dir: rel, PkgPath: modulePath + "/" + filepath.ToSlash(rel), Props: map[string]bool{}, Loads: map[string][]string{}}
			curProp := ""
			if rel == "." {
				cf.PkgPath = modulePath
			}
			data, _ := os.ReadFile(p)
			for _, l := range strings.Split(string(data), "\n") {
				l = strings.TrimSpace(l)
				if strings.HasPrefix(l, "//@ property ") {
					curProp = strings.TrimSpace(strings.TrimPrefix(l, "//@ property "))
					cf.Props[curProp] = true
				}
				if strings.HasPrefix(l, "//@ load ") {
					cf.Loads[curProp] = append(cf.Loads[curProp], strings.Fields(strings.TrimPrefix(l, "//@ load "))...)
				}
			}
			out = append(out, cf)
		}
		return nil
	})
	sort.Slice(out, func(i, j int) bool { return out[i].Path < out[j].Path })
	return out
}

type KnownFinding struct {
	Property   string `json:"property"`
	Obligation string `json:"obligation"`
	What       string `json:"what"`
	Witness    string `json:"witness,omitempty"`
}

type KnownFile struct {
	Findings []KnownFinding `json:"findings"`
	Fixed    []string       `json:"fixed"`
}

func loadKnown() *KnownFile {
	kf := &KnownFile{}
	data, err := os.ReadFile(filepath.Join(verifDir(), "known_findings.json"))
	if err == nil {
		json.Unmarshal(data, kf)
	}
	return kf
}

type Baseline struct {
	Property    string   `json:"property"`
	Obligations []string `json:"obligations"`
}

func loadBaseline(id string) map[string]bool {
	m := map[string]bool{}
	data, err := os.ReadFile(filepath.Join(verifDir(), "baseline", id+".json"))
	if err != nil {
		return m
	}
	var b Baseline
	json.Unmarshal(data, &b)
	for _, o := range b.Obligations {
		m[o] = true
	}
	return m
}

type oblReport struct {
	Name   string  `json:"name"`
	Kind   string  `json:"kind"`
	Pos    string  `json:"pos"`
	Result string  `json:"result"`
	Solver string  `json:"solver,omitempty"`
	Time   float64 `json:"time_s"`
	Clause string  `json:"clause,omitempty"`
	Status string  `json:"status"`
}

func main() {
	if len(os.Args) < 2 {
		fmt.Fprintln(os.Stderr, "usage: govc check <id> [--tier quick|thorough] | govc dump <pkg> <func>")
		os.Exit(2)
	}
	switch os.Args[1] {
	case "check":
		os.Exit(cmdCheck(os.Args[2:]))
	case "dump":
		cmdDump(os.Args[2:])
	case "mods":
		cmdMods(os.Args[2:])
	case "reach":
		cmdReach(os.Args[2:])
	default:
		fmt.Fprintln(os.Stderr, "unknown command")
		os.Exit(2)
	}
}

func cmdCheck(args []string) int {
	fs_ := flag.NewFlagSet("check", flag.ExitOnError)
	tier := fs_.String("tier", "quick", "quick|thorough")
	updateBaseline := fs_.Bool("update-baseline", false, "record the discharged obligations as the baseline set")
	keep := fs_.Bool("keep", false, "keep all .smt2 files")
	verbose := fs_.Bool("v", false, "verbose")
	only := fs_.String("only", "", "only functions whose key contains this")
	dbg := fs_.Bool("debug", false, "re-panic on generator panics")
	if len(args) < 1 {
		fmt.Fprintln(os.Stderr, "check: property id required")
		return 2
	}
	id := args[0]
	fs_.Parse(args[1:])
	debugPanics = *dbg
	if t := os.Getenv("VERIF_TIER"); t != "" && (t == "quick" || t == "thorough") {
		// explicit flag wins; env only when the flag was not given
		given := false
		fs_.Visit(func(f *flag.Flag) {
			if f.Name == "tier" {
				given = true
			}
		})
		if !given {
			*tier = t
		}
	}
	seed := 0
	if s := os.Getenv("VERIF_SEED"); s != "" {
		seed, _ = strconv.Atoi(s)
	}
	t0 := time.Now()
	root := repoRoot()
	cfs := discoverContracts(root)
	var dirs []string
	for _, cf := range cfs {
		if cf.Props[id] {
			dirs = append(dirs, "./"+cf.Dir)
			dirs = append(dirs, cf.Loads[id]...)
		}
	}
	evPath := filepath.Join(verifDir(), "evidence", id+".json")
	os.MkdirAll(filepath.Dir(evPath), 0o755)
	os.Remove(evPath)
	if len(dirs) == 0 {
		fmt.Fprintf(os.Stderr, "no contract file declares property %s\n", id)
		return 2
	}
	prog, err := loadProgram(dirs)
	if err != nil {
		fmt.Fprintf(os.Stderr, "load failed: %v\n", err)
		// a tree that does not build cannot be checked; this is not a verdict on the property
		return 2
	}
	specs := newSpecSet()
	for _, cf := range cfs {
		if prog.ByPkg[cf.PkgPath] == nil {
			continue
		}
		if err := specs.loadFile(cf.Path, cf.PkgPath); err != nil {
			fmt.Fprintf(os.Stderr, "contract parse error: %v\n", err)
			return 2
		}
	}
	// assumed contracts on dependencies (stdlib etc.)
	exts, _ := filepath.Glob(filepath.Join(verifDir(), "contracts", "*.spec"))
	if len(exts) == 0 {
		exts, _ = filepath.Glob("/verif/contracts/*.spec")
	}
	for _, e := range exts {
		if err := specs.loadFile(e, ""); err != nil {
			fmt.Fprintf(os.Stderr, "contract parse error: %v\n", err)
			return 2
		}
	}
	loadS := time.Since(t0).Seconds()
	timeout := 20
	jobs := 6
	if *tier == "thorough" {
		timeout = 60
		jobs = 5
	}
	if t, err := strconv.Atoi(os.Getenv("GOVC_TIMEOUT")); err == nil && t > 0 {
		timeout = t
	}
	workdir, _ := os.MkdirTemp("", "govc-"+id+"-")
	defer os.RemoveAll(workdir)
	opts := solveOpts{timeoutS: timeout, all: *tier == "thorough", workdir: workdir, jobs: jobs}

	known := loadKnown()
	baseline := loadBaseline(id)
	var reports []oblReport
	var funcsUnder []string
	assumptions := map[string]bool{}
	var warnings []string
	var samples []interface{}
	nObl, nDis, nViol, nUndecided, nKnown := 0, 0, 0, 0, 0
	solverTime := 0.0
	bySolver := map[string]int{}
	broken := false
	seen := map[string]bool{}
	var violationLines []string
	var allObls []*Obligation
	type fr struct {
		res *FuncResult
	}
	var results []*FuncResult
	curCheckID = id
	for _, sp := range specs.Order {
		// a contract belongs to the property of its section, and to every
		// property named in an "also <id> ..." clause (a function two properties
		// depend on is checked - under that property's name - by both)
		if sp.Property != id && !alsoProperty(sp, id) {
			continue
		}
		if *only != "" && !strings.Contains(sp.Key, *only) {
			continue
		}
		res := verifyFunc(prog, specs, sp)
		results = append(results, res)
		if res.Missing {
			fmt.Fprintf(os.Stderr, "UNDECIDED %s: contract anchor missing: %s\n", id, res.Err)
			nUndecided++
			// a function under contract no longer exists under that name: the
			// check cannot vouch for the property on this tree (exit 2, unless a
			// baseline obligation also fails)
			broken = true
			continue
		}
		if res.Err != "" {
			fmt.Fprintf(os.Stderr, "UNDECIDED %s: %s: %s\n", id, sp.Key, res.Err)
			nUndecided++
			// the contract no longer fits the function (a spec error, or the
			// generator could not evaluate it - e.g. a loop invariant that now
			// lands on a different loop): none of its obligations is decided,
			// the check cannot vouch for the property on this tree
			broken = true
			continue
		}
		c := res.Ctx
		if c.specErrors > 0 {
			broken = true
		}
		if sp.Flags["trusted"] == "" {
			funcsUnder = append(funcsUnder, sp.PkgPath[len(modulePath):]+"::"+sp.Key)
		}
		fopts := opts
		if t, err := strconv.Atoi(strings.TrimSpace(sp.Flags["timeout"])); err == nil && t > fopts.timeoutS {
			// a contract may ask for a longer per-obligation budget ("timeout N")
			fopts.timeoutS = t
		}
		solveAll(c, c.obls, fopts)
		secondChance(c, c.obls, fopts)
		for a := range c.assume {
			assumptions[a] = true
		}
		warnings = append(warnings, c.warn...)
		for _, o := range c.obls {
			allObls = append(allObls, o)
			if seen[o.Name] {
				o.Name += "'"
			}
			seen[o.Name] = true
			solverTime += o.Time
			r := oblReport{Name: o.Name, Kind: o.Kind, Pos: o.Pos, Result: o.Result, Solver: o.Solver, Time: o.Time}
			if o.Clause != nil {
				r.Clause = o.Clause.Text
			}
			if o.Expect == "sat" {
				switch o.Result {
				case "sat":
					r.Status = "probe-ok"
				case "unsat":
					r.Status = "VACUOUS"
					broken = true
					fmt.Fprintf(os.Stderr, "BROKEN-CHECK %s: vacuity guard failed: %s\n", id, o.Name)
				default:
					r.Status = "probe-unknown"
				}
				reports = append(reports, r)
				continue
			}
			nObl++
			switch o.Result {
			case "unsat":
				nDis++
				bySolver[o.Solver]++
				r.Status = "discharged"
				if len(samples) < 3 && o.Kind != "vacuity" {
					samples = append(samples, map[string]interface{}{"obligation": o.Name, "smt2_head": headOf(o.SMT, 1200), "smt2_bytes": len(o.SMT), "solver": o.Solver, "time_s": o.Time})
				}
			default:
				kfound := false
				for _, k := range known.Findings {
					if k.Property == id && k.Obligation == o.Name {
						kfound = true
						fmt.Printf("KNOWN-FINDING: property=%s %s (%s)\n", id, k.What, o.Name)
						r.Status = "known-finding"
						nKnown++
						nObl-- // reported separately, not claimed
					}
				}
				if kfound {
					break
				}
				dir := filepath.Join(verifDir(), "replays", id, smtIdent(strings.ReplaceAll(o.Name, "/", "__")))
				reproduced := false
				if o.Result == "sat" {
					reproduced = c.tryReplay(res, o, dir)
				}
				if c.staleContract && !reproduced {
					// stale contract (see safeEval): broken check, not a violation
					nUndecided++
					broken = true
					r.Status = "undecided"
					fmt.Fprintf(os.Stderr, "UNDECIDED %s: obligation %s is %s but the contract of its function names a variable that no longer exists (stale contract)\n", id, o.Name, o.Result)
				} else if baseline[o.Name] || reproduced {
					nViol++
					r.Status = "VIOLATION"
					writeReplayDir(dir, o, reproduced)
					line := fmt.Sprintf("VIOLATION property=%s replay=%s", id, dir)
					if !reproduced {
						line += " no-failing-input-found"
					}
					violationLines = append(violationLines, line)
					fmt.Fprintf(os.Stderr, "failed obligation %s [%s] %s at %s\n", o.Name, o.Result, clauseText(o), o.Pos)
				} else {
					nUndecided++
					r.Status = "undecided"
					fmt.Fprintf(os.Stderr, "UNDECIDED %s: obligation %s is %s and not in the baseline set (%s)\n", id, o.Name, o.Result, o.Pos)
					if *keep || *verbose {
						os.MkdirAll(filepath.Join(verifDir(), "scratch"), 0o755)
						os.WriteFile(filepath.Join(verifDir(), "scratch", smtIdent(strings.ReplaceAll(o.Name, "/", "__"))+".smt2"), []byte(o.SMT), 0o644)
					}
				}
			}
			reports = append(reports, r)
		}
	}
	// lemma layer
	lr := runLemmas(id, prog, specs, opts, known, baseline, seen)
	nObl += lr.n
	nDis += lr.discharged
	nViol += lr.violations
	nKnown += lr.known
	nUndecided += lr.undecided
	reports = append(reports, lr.reports...)
	violationLines = append(violationLines, lr.lines...)
	solverTime += lr.time
	for k, v := range lr.bySolver {
		bySolver[k] += v
	}
	for _, a := range lr.assumptions {
		assumptions[a] = true
	}
	if len(samples) < 3 {
		samples = append(samples, lr.samples...)
	}
	// structural obligations
	sr := runStructural(id, prog, specs, known)
	nObl += sr.n
	nDis += sr.discharged
	nViol += sr.violations
	nKnown += sr.known
	reports = append(reports, sr.reports...)
	violationLines = append(violationLines, sr.lines...)
	for _, r := range sr.reports {
		seen[r.Name] = true
	}
	// baseline obligations that are no longer generated
	if *only == "" {
		for _, b := range sortedKeys(baseline) {
			if !seen[b] {
				if strings.Contains(b, "/assert:") && strings.Contains(b, "/call#") {
					// an assertion the contract attaches to a particular call was
					// discharged on the pinned tree and can no longer even be
					// stated: the call it guards is gone (replaced, reordered or
					// removed). The obligation is not re-established: reported.
					dir := filepath.Join(verifDir(), "replays", id, smtIdent(strings.ReplaceAll(b, "/", "__")))
					os.MkdirAll(dir, 0o755)
					os.WriteFile(filepath.Join(dir, "REPORT.txt"), []byte("obligation "+b+"\nwas discharged on the pinned tree; on this tree the call site it is anchored at no longer exists,\nso the assertion about that call cannot be established (no solver query, no failing input).\n"), 0o644)
					nViol++
					violationLines = append(violationLines, fmt.Sprintf("VIOLATION property=%s replay=%s no-failing-input-found", id, dir))
					fmt.Fprintf(os.Stderr, "failed obligation %s [anchor-gone] the call this assertion guards no longer exists\n", b)
					continue
				}
				fmt.Fprintf(os.Stderr, "UNDECIDED %s: baseline obligation %s is no longer generated\n", id, b)
				nUndecided++
			}
		}
	}

	if nObl == 0 {
		fmt.Fprintf(os.Stderr, "BROKEN-CHECK %s: no obligations generated\n", id)
		broken = true
	}
	for _, w := range dedup(warnings) {
		if *verbose || strings.HasPrefix(w, "SPEC-ERROR") {
			fmt.Fprintln(os.Stderr, "warning:", w)
		}
	}
	if *updateBaseline {
		var names []string
		for _, r := range reports {
			if r.Status == "discharged" {
				names = append(names, r.Name)
			}
		}
		sort.Strings(names)
		os.MkdirAll(filepath.Join(verifDir(), "baseline"), 0o755)
		data, _ := json.MarshalIndent(Baseline{Property: id, Obligations: names}, "", " ")
		os.WriteFile(filepath.Join(verifDir(), "baseline", id+".json"), data, 0o644)
	}
	level := "proof"
	if nUndecided > 0 || nDis < nObl {
		level = "other"
	}
	asm := []string{}
	for a := range assumptions {
		asm = append(asm, a)
	}
	sort.Strings(asm)
	ev := map[string]interface{}{
		"property_id": id,
		"tier":        *tier,
		"seed":        seed,
		"level":       level,
		"wall_s":      time.Since(t0).Seconds(),
		"violations":  nViol,
		"assumptions": asm,
		"coverage": map[string]interface{}{
			"obligations":              nObl,
			"discharged":               nDis,
			"checker_cmd":              "govc check " + id + " --tier " + *tier + "  (VCs from go/ssa of /repo's working tree; solvers raced: z3 4.8.12, z3 5.1.0, cvc5 1.0.3)",
			"trusted_base":             trustedBase(asm),
			"functions_under_contract": funcsUnder,
			"per_obligation":           reports,
			"solver_time_s":            solverTime,
			"load_s":                   loadS,
			"discharged_by_solver":     bySolver,
			"known_findings_reported":  nKnown,
			"undecided":                nUndecided,
			"samples":                  samples,
			"explanation":              fmt.Sprintf("contract-based deductive verification: %d obligations generated from the current source, %d discharged (unsat), %d undecided, %d known findings, %d violations", nObl, nDis, nUndecided, nKnown, nViol),
			"contract_files":           specs.Files,
		},
	}
	data, _ := json.MarshalIndent(ev, "", " ")
	os.WriteFile(evPath, data, 0o644)
	fmt.Printf("%s: %d obligations, %d discharged, %d undecided, %d known, %d violations  (load %.1fs, solvers %.1fs, wall %.1fs)\n", id, nObl, nDis, nUndecided, nKnown, nViol, loadS, solverTime, time.Since(t0).Seconds())
	if *verbose {
		for _, r := range reports {
			fmt.Printf("  %-12s %-8s %-7s %6.2fs %s  [%s]\n", r.Status, r.Result, r.Solver, r.Time, r.Name, r.Pos)
		}
	}
	for _, l := range violationLines {
		fmt.Println(l)
	}
	// a baseline obligation that now fails is reported as such even when, in
	// addition, an anchor of the contract went stale (exit 2 = nothing failed
	// but the check can no longer vouch for the property)
	if nViol > 0 {
		return 1
	}
	if broken {
		return 2
	}
	return 0
}

func clauseText(o *Obligation) string {
	if o.Clause != nil {
		return "«" + o.Clause.Text + "»"
	}
	return ""
}

func headOf(s string, n int) string {
	if len(s) <= n {
		return s
	}
	return s[:n] + "…"
}

func dedup(xs []string) []string {
	m := map[string]bool{}
	var out []string
	for _, x := range xs {
		if !m[x] {
			m[x] = true
			out = append(out, x)
		}
	}
	return out
}

func trustedBase(asm []string) []string {
	tb := []string{
		"go/types + go/ssa (x/tools v0.50.0) agree with the Go compiler",
		"govc SSA->SMT translation (DESIGN §2), mitigated by the must-fail selftest corpus and replay",
		"z3 / cvc5 unsat answers",
		"Go atomics are sequentially consistent; no unsafe aliasing of cells under contract",
	}
	return tb
}

func writeReplayDir(dir string, o *Obligation, reproduced bool) {
	os.MkdirAll(dir, 0o755)
	os.WriteFile(filepath.Join(dir, "obligation.smt2"), []byte(o.SMT), 0o644)
	var sb strings.Builder
	fmt.Fprintf(&sb, "failed obligation: %s\nkind: %s\nposition: %s\nsolver result: %s (%s, %.2fs)\n", o.Name, o.Kind, o.Pos, o.Result, o.Solver, o.Time)
	if o.Clause != nil {
		fmt.Fprintf(&sb, "clause (%s:%d): %s\n", o.Clause.File, o.Clause.Line, o.Clause.Text)
	}
	fmt.Fprintf(&sb, "replayed on real code: %v\n\nsolver output:\n%s\n", reproduced, o.Output)
	if o.Replay != nil {
		fmt.Fprintf(&sb, "\nreplay command: %s\nreplay output:\n%s\n", o.Replay.Cmd, o.Replay.Output)
	}
	os.WriteFile(filepath.Join(dir, "REPORT.txt"), []byte(sb.String()), 0o644)
	if o.Replay != nil && o.Replay.TestSrc != "" {
		os.WriteFile(filepath.Join(dir, "replay_test.go.txt"), []byte(o.Replay.TestSrc), 0o644)
	}
}
