package main

// Symbolic execution of go/ssa functions into verification conditions.
// Loops are cut at their headers (invariants), calls are replaced by callee
// contracts (or inlined when small and contract-free, or abstracted).

import (
	"fmt"
	"go/token"
	"go/types"
	"math/big"
	"sort"
	"strings"

	"golang.org/x/tools/go/ssa"
)

type retPt struct {
	pc    *Term
	vals  []Val
	state State
}

type deferRec struct {
	call  *ssa.Defer
	block *ssa.BasicBlock
	pc    *Term
}

type loopInfo struct {
	ord    int
	header *ssa.BasicBlock
	body   map[int]bool
	back   []*ssa.BasicBlock // sources of back edges
}

type frame struct {
	c       *Ctx
	fn      *ssa.Function
	spec    *FuncSpec
	parent  *frame
	private []privCell // heap-allocated locals no callee can write (privatecells.go)
	depth   int
	vals    map[ssa.Value]Val
	pcIn    map[int]*Term
	stOut   map[int]State
	edge    map[[2]int]*Term
	entry   State
	params  []Val
	rets    []retPt
	defers  []deferRec
	loops   map[int]*loopInfo // by header block index
	prefix  string
	callOrd map[string]int
	env     map[string]Val // contract names -> values (params)
	ghostIn State
	panics  int
	tag     string
	inlined bool
	rangeOf map[ssa.Value]*rangeInfo
	free    map[ssa.Value]Val // closure bindings
	callPos string
}

type rangeInfo struct {
	m       Val
	mapType *types.Map
	visited string // ghost heap name of the visited set
	isStr   bool
}

const maxInlineDepth = 6

func (c *Ctx) newFrame(fn *ssa.Function, spec *FuncSpec, parent *frame) *frame {
	f := &frame{c: c, fn: fn, spec: spec, parent: parent, vals: map[ssa.Value]Val{}, pcIn: map[int]*Term{}, stOut: map[int]State{},
		edge: map[[2]int]*Term{}, loops: map[int]*loopInfo{}, callOrd: map[string]int{}, env: map[string]Val{}, rangeOf: map[ssa.Value]*rangeInfo{}}
	if parent != nil {
		f.depth = parent.depth + 1
		f.inlined = true
	}
	f.tag = smtIdent(fn.Name())
	if parent != nil {
		// every inlined activation names its values apart: the same function
		// inlined twice (or two functions of the same name, e.g. two Load
		// methods) must not share SMT constants
		inlineSeq++
		f.tag = fmt.Sprintf("%s_i%d", f.tag, inlineSeq)
	}
	return f
}

var inlineSeq int

func (f *frame) warnf(format string, a ...interface{}) {
	msg := fmt.Sprintf(format, a...)
	f.c.warn = append(f.c.warn, funcKey(f.fn)+": "+msg)
}

// ---------- CFG helpers ----------

func (f *frame) findLoops() {
	fn := f.fn
	var headers []int
	for _, b := range fn.Blocks {
		for _, s := range b.Succs {
			if s.Dominates(b) { // back edge b -> s
				li := f.loops[s.Index]
				if li == nil {
					li = &loopInfo{header: s, body: map[int]bool{s.Index: true}}
					f.loops[s.Index] = li
					headers = append(headers, s.Index)
				}
				li.back = append(li.back, b)
				// natural loop: nodes reaching b without passing s
				stack := []*ssa.BasicBlock{b}
				for len(stack) > 0 {
					x := stack[len(stack)-1]
					stack = stack[:len(stack)-1]
					if li.body[x.Index] {
						continue
					}
					li.body[x.Index] = true
					stack = append(stack, x.Preds...)
				}
			}
		}
	}
	// ordinal by source position of the loop (block order follows source order)
	sort.Ints(headers)
	for i, h := range headers {
		f.loops[h].ord = i + 1
	}
}

func (f *frame) isBackEdge(from, to *ssa.BasicBlock) bool {
	return to.Dominates(from) && f.loops[to.Index] != nil
}

func (f *frame) rpo() []*ssa.BasicBlock {
	seen := map[int]bool{}
	var order []*ssa.BasicBlock
	var dfs func(b *ssa.BasicBlock)
	dfs = func(b *ssa.BasicBlock) {
		seen[b.Index] = true
		for _, s := range b.Succs {
			if !seen[s.Index] && !f.isBackEdge(b, s) {
				dfs(s)
			}
		}
		order = append(order, b)
	}
	dfs(f.fn.Blocks[0])
	for i, j := 0, len(order)-1; i < j; i, j = i+1, j-1 {
		order[i], order[j] = order[j], order[i]
	}
	return order
}

// ---------- values ----------

func (f *frame) valName(v ssa.Value) string {
	n := v.Name()
	if f.depth > 0 {
		return fmt.Sprintf("%s.%d.%s", f.tag, f.depth, n)
	}
	return f.tag + "." + n
}

func (f *frame) get(v ssa.Value) Val {
	if x, ok := f.vals[v]; ok {
		return x
	}
	c := f.c
	switch k := v.(type) {
	case *ssa.Const:
		t := k.Type()
		if k.Value == nil {
			return Val{T: c.zero(t), Typ: t}
		}
		if tm := c.constVal(k.Value, t); tm != nil {
			return Val{T: tm, Typ: t}
		}
		return Val{T: c.fresh("const", c.sortOf(t)), Typ: t}
	case *ssa.Global:
		return Val{P: &Ptr{Kind: PGlobal, Name: "G$" + smtIdent(k.Pkg.Pkg.Path()+"."+k.Name()), Elem: k.Type().(*types.Pointer).Elem(), Glob: k}, Typ: k.Type()}
	case *ssa.Function:
		return Val{T: c.funcRef(k), Typ: k.Type(), Fn: k}
	case *ssa.Builtin:
		return Val{Typ: k.Type(), Fn: k}
	case *ssa.FreeVar:
		if f.free != nil {
			if x, ok := f.free[k]; ok {
				return x
			}
		}
		x := Val{T: c.fresh("free_"+k.Name(), c.sortOf(k.Type())), Typ: k.Type()}
		f.vals[v] = x
		return x
	}
	// a value used before definition (should not happen in RPO, except phis of loops)
	x := Val{T: c.fresh("undef_"+v.Name(), c.sortOf(v.Type())), Typ: v.Type()}
	f.vals[v] = x
	return x
}

func (c *Ctx) funcRef(fn *ssa.Function) *Term {
	name := "fn$" + smtIdent(fn.String())
	t := c.declConst(name, IntSort)
	return t
}

// define names an SSA value: v = def.
func (f *frame) define(v ssa.Value, x Val) {
	if x.T != nil && x.P == nil && x.Tuple == nil && termSize(x.T) > 6 && isGround(x.T, nil) {
		n := f.c.declConst(f.valName(v), x.T.Sort)
		f.c.addHyp(Eq(n, x.T))
		x.T = n
	}
	if x.Typ == nil {
		x.Typ = v.Type()
	}
	f.vals[v] = x
}

func (f *frame) freshVal(name string, t types.Type, s State) Val {
	c := f.c
	if tup, ok := t.(*types.Tuple); ok {
		var vs []Val
		for i := 0; i < tup.Len(); i++ {
			vs = append(vs, f.freshVal(fmt.Sprintf("%s.%d", name, i), tup.At(i).Type(), s))
		}
		return Val{Tuple: vs, Typ: t}
	}
	v := c.fresh(name, c.sortOf(t))
	c.addHyp(c.wellTypedIn(v, t, s))
	return Val{T: v, Typ: t}
}

func (c *Ctx) wellTypedIn(v *Term, t types.Type, s State) *Term {
	w := c.wellTyped(v, t)
	if s == nil || t == nil {
		return w
	}
	switch t.Underlying().(type) {
	case *types.Pointer, *types.Map, *types.Chan:
		return And(w, mk("<", BoolSort, v, c.allocTop(s)))
	case *types.Slice:
		return And(w, mk("<", BoolSort, c.slBase(v), c.allocTop(s)))
	}
	return w
}

// ---------- memory ----------

func deref(t types.Type) types.Type {
	if p, ok := t.Underlying().(*types.Pointer); ok {
		return p.Elem()
	}
	return t
}

func (f *frame) load(s State, p Val) Val {
	c := f.c
	if p.P == nil {
		elem := deref(p.Typ)
		if st, ok := elem.Underlying().(*types.Struct); ok {
			var fs []*Term
			for i := 0; i < st.NumFields(); i++ {
				_, h := c.fieldHeap(s, elem, st, i)
				fs = append(fs, Select(h, p.T))
			}
			return Val{T: c.mkStruct(elem, st, fs), Typ: elem}
		}
		if arr, ok := elem.Underlying().(*types.Array); ok {
			// an array object lives in the element heap, like the backing store of a slice
			_, h := c.elemHeap(s, arr.Elem())
			return Val{T: Select(h, p.T), Typ: elem}
		}
		_, h := c.cellHeap(s, elem)
		return Val{T: Select(h, p.T), Typ: elem}
	}
	switch p.P.Kind {
	case PField:
		base := *p.P.Base
		bt := deref(base.Typ)
		st := bt.Underlying().(*types.Struct)
		if base.P == nil {
			_, h := c.fieldHeap(s, bt, st, p.P.Field)
			return Val{T: Select(h, base.T), Typ: p.P.Elem}
		}
		sv := f.load(s, base)
		return Val{T: c.structField(bt, st, sv.T, p.P.Field), Typ: p.P.Elem}
	case PIndex:
		arr := f.load(s, *p.P.Base)
		return Val{T: Select(arr.T, p.P.Idx), Typ: p.P.Elem}
	case PSliceElem:
		sl := p.P.Base.T
		_, h := c.elemHeap(s, p.P.Elem)
		return Val{T: Select(Select(h, c.slBase(sl)), c.arith(token.ADD, c.slOff(sl), p.P.Idx, types.Typ[types.Int])), Typ: p.P.Elem}
	case PGlobal:
		t, ok := s[p.P.Name]
		if !ok {
			t = c.heapVar(s, p.P.Name, c.sortOf(p.P.Elem))
		}
		if g, isG := p.P.Glob.(*ssa.Global); isG && c.nonNilErrorGlobal(g) {
			// derived from the SSA: initialised once with a non-nil value, never reassigned
			c.addHyp(Not(Eq(t, Var("iface_nil", c.ifaceSort()))))
		}
		return Val{T: t, Typ: p.P.Elem}
	}
	panic("load: bad pointer")
}

func (f *frame) store(s State, p Val, v *Term) {
	c := f.c
	if p.P == nil {
		elem := deref(p.Typ)
		if st, ok := elem.Underlying().(*types.Struct); ok {
			for i := 0; i < st.NumFields(); i++ {
				n, h := c.fieldHeap(s, elem, st, i)
				s[n] = Store(h, p.T, c.structField(elem, st, v, i))
			}
			return
		}
		if arr, ok := elem.Underlying().(*types.Array); ok {
			n, h := c.elemHeap(s, arr.Elem())
			s[n] = Store(h, p.T, v)
			return
		}
		n, h := c.cellHeap(s, elem)
		s[n] = Store(h, p.T, v)
		return
	}
	switch p.P.Kind {
	case PField:
		base := *p.P.Base
		bt := deref(base.Typ)
		st := bt.Underlying().(*types.Struct)
		if base.P == nil {
			n, h := c.fieldHeap(s, bt, st, p.P.Field)
			s[n] = Store(h, base.T, v)
			return
		}
		sv := f.load(s, base)
		var fs []*Term
		for i := 0; i < st.NumFields(); i++ {
			if i == p.P.Field {
				fs = append(fs, v)
			} else {
				fs = append(fs, c.structField(bt, st, sv.T, i))
			}
		}
		f.store(s, base, c.mkStruct(bt, st, fs))
	case PIndex:
		arr := f.load(s, *p.P.Base)
		f.store(s, *p.P.Base, Store(arr.T, p.P.Idx, v))
	case PSliceElem:
		sl := p.P.Base.T
		n, h := c.elemHeap(s, p.P.Elem)
		idx := c.arith(token.ADD, c.slOff(sl), p.P.Idx, types.Typ[types.Int])
		s[n] = Store(h, c.slBase(sl), Store(Select(h, c.slBase(sl)), idx, v))
	case PGlobal:
		c.heapVar(s, p.P.Name, c.sortOf(p.P.Elem))
		s[p.P.Name] = v
	}
}

// materialize turns an interior pointer into an opaque reference term.
func (f *frame) materialize(p Val) *Term {
	c := f.c
	if p.P == nil {
		return p.T
	}
	switch p.P.Kind {
	case PField:
		base := f.materialize(*p.P.Base)
		bt := deref(p.P.Base.Typ)
		st := bt.Underlying().(*types.Struct)
		fn := "addr$" + c.structName(bt) + "$" + smtIdent(st.Field(p.P.Field).Name())
		c.declFun(fn, []*Sort{IntSort}, IntSort)
		return App(fn, IntSort, base)
	case PGlobal:
		return c.declConst("addr$"+p.P.Name, IntSort)
	case PSliceElem, PIndex:
		fn := "addr$elem"
		c.declFun(fn, []*Sort{IntSort, c.idxSort()}, IntSort)
		var base *Term
		if p.P.Kind == PSliceElem {
			sl := p.P.Base.T
			return App(fn, IntSort, c.slBase(sl), c.arith(token.ADD, c.slOff(sl), p.P.Idx, types.Typ[types.Int]))
		}
		base = f.materialize(*p.P.Base)
		return App(fn, IntSort, base, p.P.Idx)
	}
	return c.fresh("ptr", IntSort)
}

// term returns the SMT term of a value (materializing interior pointers).
func (f *frame) term(v Val) *Term {
	if v.P != nil {
		return f.materialize(v)
	}
	if v.T == nil {
		return f.c.fresh("opaque", f.c.sortOf(v.Typ))
	}
	return v.T
}

// ---------- obligations ----------

func (f *frame) root() *frame {
	r := f
	for r.parent != nil {
		r = r.parent
	}
	return r
}

func (f *frame) oblName(kind string) string {
	r := f.root()
	return fmt.Sprintf("%s/%s/%s", f.c.curProp, funcKey(r.fn), kind)
}

func (f *frame) emit(kind, name string, pc, goal *Term, pos token.Pos, cl *Clause) *Obligation {
	c := f.c
	// names are unique within a function (several back edges / return paths)
	base := name
	for n := 2; ; n++ {
		dup := false
		for _, o := range c.obls {
			if o.Name == name {
				dup = true
				break
			}
		}
		if !dup {
			break
		}
		name = fmt.Sprintf("%s~%d", base, n)
	}
	o := &Obligation{Name: name, Kind: kind, Func: funcKey(f.root().fn), NHyps: len(c.hyps), PC: pc, Goal: goal, Pos: posStr(c.prog.Fset, pos), Clause: cl, Expect: "unsat"}
	c.obls = append(c.obls, o)
	return o
}

// check emits an obligation and then assumes the goal on the path.
func (f *frame) check(kind, name string, pc, goal *Term, pos token.Pos, cl *Clause) {
	if isTrue(goal) {
		if cl != nil && cl.Label != "" {
			// a labelled contract clause that the simplifier already reduced to
			// true is still an obligation of the property: it is recorded
			// (decided without a solver) so that it belongs to the baseline set,
			// and a change that makes it non-trivial and false is a VIOLATION
			// rather than an "obligation not in the baseline"
			o := f.emit(kind, name, pc, goal, pos, cl)
			o.Static = true
			o.Result = "unsat"
			o.Solver = "simplifier"
		}
		return
	}
	f.emit(kind, name, pc, goal, pos, cl)
	if kind == "invariant-entry" && containsQuant(goal) {
		// the invariant is assumed again right after the loop's havoc; keeping the
		// entry instance as well only feeds the instantiation engine with noise
		return
	}
	f.c.addHyp(Implies(pc, goal))
}

func (f *frame) flagOn(name string, def bool) bool {
	r := f.root()
	if r.spec == nil {
		return def
	}
	if v, ok := r.spec.Flags[name]; ok {
		return v != "off" && v != "false"
	}
	return def
}

func (f *frame) boundsCheck(pc *Term, cond *Term, instr ssa.Instruction, what string) {
	if f.inlined && !f.flagOn("check-inlined", false) {
		f.c.addHyp(Implies(pc, cond))
		return
	}
	if !f.flagOn("bounds", true) {
		f.c.addHyp(Implies(pc, cond))
		return
	}
	f.panics++
	name := f.oblName(fmt.Sprintf("no-panic#%d(%s)", f.panics, what))
	f.check("no-panic", name, pc, cond, instr.Pos(), nil)
}

// ---------- main loop ----------

// run executes the function from the given entry pc/state; returns merged
// (pc, results, state) over all return points.
func (f *frame) run(pc0 *Term, st0 State, args []Val) (retPc *Term, results []Val, out State) {
	fn := f.fn
	c := f.c
	if len(fn.Blocks) == 0 {
		panic("run: no body for " + fn.String())
	}
	f.findLoops()
	for i, p := range fn.Params {
		f.vals[p] = args[i]
	}
	f.params = args
	f.entry = st0.clone()
	order := f.rpo()
	for _, b := range order {
		var pc *Term
		var st State
		if b.Index == 0 {
			pc, st = pc0, st0.clone()
		} else {
			pc, st = f.mergeInto(b)
		}
		if li := f.loops[b.Index]; li != nil {
			pc, st = f.enterLoop(li, b, pc, st)
		}
		pcn := pc
		if !isTrue(pc) && !isFalse(pc) && termSize(pc) > 3 && isGround(pc, nil) {
			pcn = c.declConst(fmt.Sprintf("pc.%s.%d.b%d", f.tag, f.depth, b.Index)+f.uniq(), BoolSort)
			c.addHyp(Eq(pcn, pc))
		}
		f.pcIn[b.Index] = pcn
		f.execBlock(b, pcn, st)
	}
	// merge return points
	if len(f.rets) == 0 {
		return False, nil, st0
	}
	retPc = False
	for _, r := range f.rets {
		retPc = Or(retPc, r.pc)
	}
	last := f.rets[len(f.rets)-1]
	results = last.vals
	out = last.state
	for i := len(f.rets) - 2; i >= 0; i-- {
		r := f.rets[i]
		var nv []Val
		for j := range results {
			nv = append(nv, f.mergeVal(r.pc, r.vals[j], results[j]))
		}
		results = nv
		out = f.mergeState(r.pc, r.state, out)
	}
	return
}

var uniqCounter int

func (f *frame) uniq() string {
	uniqCounter++
	return fmt.Sprintf("_%d", uniqCounter)
}

func (f *frame) mergeVal(cond *Term, a, b Val) Val {
	if a.Tuple != nil {
		var vs []Val
		for i := range a.Tuple {
			vs = append(vs, f.mergeVal(cond, a.Tuple[i], b.Tuple[i]))
		}
		return Val{Tuple: vs, Typ: a.Typ}
	}
	if a.P != nil || b.P != nil {
		if a.P != nil && b.P != nil && a.P.Kind == b.P.Kind && a.P.Field == b.P.Field && a.P.Name == b.P.Name {
			np := *a.P
			if a.P.Base != nil {
				nb := f.mergeVal(cond, *a.P.Base, *b.P.Base)
				np.Base = &nb
			}
			if a.P.Idx != nil {
				np.Idx = Ite(cond, a.P.Idx, b.P.Idx)
			}
			return Val{P: &np, Typ: a.Typ}
		}
		return Val{T: Ite(cond, f.term(a), f.term(b)), Typ: a.Typ}
	}
	if a.T == nil || b.T == nil {
		if a.T == nil {
			return b
		}
		return a
	}
	r := Val{T: Ite(cond, a.T, b.T), Typ: a.Typ}
	if a.Fn != nil && a.Fn == b.Fn {
		r.Fn = a.Fn
	}
	return r
}

func (f *frame) mergeState(cond *Term, a, b State) State {
	out := State{}
	for _, k := range sortedKeys(a) {
		va := a[k]
		vb, ok := b[k]
		if isMarker(va) || (ok && isMarker(vb)) {
			// overwritten on one side before its sort was known: an arbitrary
			// value on that side
			switch {
			case isMarker(va) && (!ok || isMarker(vb)):
				if !ok {
					if srt, known := f.c.heapSort[k]; known {
						out[k] = Ite(cond, f.c.fresh(k, srt), f.c.heapVar(b, k, srt))
						continue
					}
				}
				if ok {
					out[k] = joinMarkers(va, vb)
				} else {
					out[k] = va
				}
				continue
			case isMarker(va):
				va = f.c.fresh(k, vb.Sort)
			default:
				vb = f.c.fresh(k, va.Sort)
			}
		}
		if !ok {
			vb = f.c.heapVar(b, k, va.Sort)
		}
		if va == vb {
			out[k] = va
		} else {
			out[k] = f.c.nameIfBig(k, Ite(cond, va, vb))
		}
	}
	for _, k := range sortedKeys(b) {
		if _, ok := out[k]; !ok {
			if isMarker(b[k]) {
				out[k] = b[k]
				continue
			}
			va := f.c.heapVar(a, k, b[k].Sort)
			out[k] = Ite(cond, va, b[k])
		}
	}
	return out
}

// mergeInto computes pc and state at the entry of block b from its forward
// predecessors and defines b's phis.
func (f *frame) mergeInto(b *ssa.BasicBlock) (*Term, State) {
	type inc struct {
		cond *Term
		st   State
		idx  int
	}
	var ins []inc
	for i, p := range b.Preds {
		if f.isBackEdge(p, b) {
			continue
		}
		e, ok := f.edge[[2]int{p.Index, b.Index}]
		if !ok {
			continue // unreachable predecessor
		}
		ins = append(ins, inc{e, f.stOut[p.Index], i})
	}
	if len(ins) == 0 {
		return False, State{}
	}
	pc := False
	for _, in := range ins {
		pc = Or(pc, in.cond)
	}
	st := ins[len(ins)-1].st.clone()
	for i := len(ins) - 2; i >= 0; i-- {
		st = f.mergeState(ins[i].cond, ins[i].st, st)
	}
	if f.loops[b.Index] == nil {
		for _, instr := range b.Instrs {
			phi, ok := instr.(*ssa.Phi)
			if !ok {
				break
			}
			v := f.get(phi.Edges[ins[len(ins)-1].idx])
			for i := len(ins) - 2; i >= 0; i-- {
				v = f.mergeVal(ins[i].cond, f.get(phi.Edges[ins[i].idx]), v)
			}
			f.define(phi, v)
		}
	}
	return pc, st
}

func (f *frame) setEdge(from, to *ssa.BasicBlock, cond *Term, st State) {
	for _, h := range sortedKeys(st) {
		st[h] = f.c.nameIfBig(h, st[h])
	}
	k := [2]int{from.Index, to.Index}
	if old, ok := f.edge[k]; ok {
		cond = Or(old, cond)
	}
	f.edge[k] = cond
	f.stOut[from.Index] = st
	if f.isBackEdge(from, to) {
		f.closeLoop(f.loops[to.Index], from, cond, st)
	}
}

func (f *frame) execBlock(b *ssa.BasicBlock, pc *Term, st State) {
	if isFalse(pc) {
		return
	}
	for _, instr := range b.Instrs {
		switch x := instr.(type) {
		case *ssa.Phi:
			continue // defined at merge / loop entry
		case *ssa.If:
			cond := f.get(x.Cond).T
			tb, fb := b.Succs[0], b.Succs[1]
			if tb == fb {
				f.setEdge(b, tb, pc, st)
			} else {
				f.setEdge(b, tb, And(pc, cond), st)
				f.setEdge(b, fb, And(pc, Not(cond)), st)
			}
			return
		case *ssa.Jump:
			f.setEdge(b, b.Succs[0], pc, st)
			return
		case *ssa.Return:
			var vs []Val
			for _, r := range x.Results {
				vs = append(vs, f.get(r))
			}
			f.rets = append(f.rets, retPt{pc, vs, st})
			return
		case *ssa.Panic:
			if !f.inlined || f.flagOn("check-inlined", false) {
				if !f.flagOn("allow-panic", false) {
					f.panics++
					f.check("no-panic", f.oblName(fmt.Sprintf("no-panic#%d(explicit-panic)", f.panics)), pc, False, x.Pos(), nil)
				}
			}
			return
		default:
			f.execInstr(instr, pc, st)
		}
	}
}

func (f *frame) execInstr(instr ssa.Instruction, pc *Term, st State) {
	c := f.c
	switch x := instr.(type) {
	case *ssa.DebugRef:
		return
	case *ssa.Alloc:
		elem := x.Type().(*types.Pointer).Elem()
		ref := c.newRef(st)
		p := Val{T: ref, Typ: x.Type()}
		f.store(st, p, c.zero(elem))
		f.vals[x] = p
		if isPrivateCell(x) {
			f.private = append(f.private, privCell{ref: ref, elem: elem})
		}
	case *ssa.BinOp:
		f.define(x, f.binop(x, pc))
	case *ssa.UnOp:
		f.define(x, f.unop(x, pc, st))
	case *ssa.Store:
		f.store(st, f.get(x.Addr), f.term(f.get(x.Val)))
	case *ssa.FieldAddr:
		base := f.get(x.X)
		st := deref(base.Typ).Underlying().(*types.Struct)
		f.vals[x] = Val{P: &Ptr{Kind: PField, Base: &base, Field: x.Field, Elem: st.Field(x.Field).Type()}, Typ: x.Type()}
	case *ssa.Field:
		sv := f.get(x.X)
		stt := sv.Typ.Underlying().(*types.Struct)
		f.define(x, Val{T: c.structField(sv.Typ, stt, sv.T, x.Field), Typ: x.Type()})
	case *ssa.IndexAddr:
		base := f.get(x.X)
		idx := c.idxOf(f.get(x.Index).T, x.Index.Type())
		elem := x.Type().(*types.Pointer).Elem()
		switch bt := base.Typ.Underlying().(type) {
		case *types.Slice:
			f.boundsCheck(pc, And(c.cmp(token.LEQ, c.idxConst(0), idx, true), c.cmp(token.LSS, idx, c.slLen(base.T), true)), x, "index")
			f.vals[x] = Val{P: &Ptr{Kind: PSliceElem, Base: &base, Idx: idx, Elem: elem}, Typ: x.Type()}
		case *types.Pointer:
			arr := bt.Elem().Underlying().(*types.Array)
			f.boundsCheck(pc, And(c.cmp(token.LEQ, c.idxConst(0), idx, true), c.cmp(token.LSS, idx, c.idxConst(arr.Len()), true)), x, "index")
			f.vals[x] = Val{P: &Ptr{Kind: PIndex, Base: &base, Idx: idx, Elem: elem}, Typ: x.Type()}
		default:
			panic("IndexAddr on " + base.Typ.String())
		}
	case *ssa.Index:
		base := f.get(x.X)
		idx := c.idxOf(f.get(x.Index).T, x.Index.Type())
		switch bt := base.Typ.Underlying().(type) {
		case *types.Array:
			f.boundsCheck(pc, And(c.cmp(token.LEQ, c.idxConst(0), idx, true), c.cmp(token.LSS, idx, c.idxConst(bt.Len()), true)), x, "index")
			f.define(x, Val{T: Select(base.T, idx), Typ: x.Type()})
		default:
			// string indexing or type-parameter: abstract
			if b, ok := bt.(*types.Basic); ok && b.Info()&types.IsString != 0 {
				f.boundsCheck(pc, And(c.cmp(token.LEQ, c.idxConst(0), idx, true), c.cmp(token.LSS, idx, c.strLen(base.T), true)), x, "string-index")
				f.define(x, Val{T: c.strAt(base.T, idx), Typ: x.Type()})
			} else {
				f.define(x, f.freshVal(x.Name(), x.Type(), st))
			}
		}
	case *ssa.Lookup:
		f.lookup(x, pc, st)
	case *ssa.Slice:
		f.sliceOp(x, pc, st)
	case *ssa.MakeSlice:
		n := c.idxOf(f.get(x.Len).T, x.Len.Type())
		cp := c.idxOf(f.get(x.Cap).T, x.Cap.Type())
		f.boundsCheck(pc, And(c.cmp(token.LEQ, c.idxConst(0), n, true), c.cmp(token.LEQ, n, cp, true)), x, "makeslice")
		ref := c.newRef(st)
		elem := x.Type().Underlying().(*types.Slice).Elem()
		hn, h := c.elemHeap(st, elem)
		esort := c.sortOf(elem)
		as := ArraySort(c.idxSort(), esort)
		st[hn] = Store(h, ref, mk(fmt.Sprintf("((as const %s) %s)", as, c.zero(elem)), as))
		f.define(x, Val{T: c.mkSlice(ref, c.idxConst(0), n, cp), Typ: x.Type()})
	case *ssa.MakeMap:
		ref := c.newRef(st)
		mt := x.Type().Underlying().(*types.Map)
		dn, _, ln, d, _, l := c.mapHeaps(st, mt)
		ks := c.sortOf(mt.Key())
		as := ArraySort(ks, BoolSort)
		st[dn] = Store(d, ref, mk(fmt.Sprintf("((as const %s) false)", as), as))
		st[ln] = Store(l, ref, c.idxConst(0))
		f.vals[x] = Val{T: ref, Typ: x.Type()}
	case *ssa.MakeChan:
		ref := c.newRef(st)
		f.vals[x] = Val{T: ref, Typ: x.Type()}
	case *ssa.MapUpdate:
		f.mapUpdate(st, f.get(x.Map), f.term(f.get(x.Key)), f.term(f.get(x.Value)))
	case *ssa.MakeInterface:
		f.define(x, f.makeInterface(f.get(x.X), x.Type()))
	case *ssa.ChangeInterface:
		v := f.get(x.X)
		if _, isTP := x.X.Type().(*types.TypeParam); isTP && v.T != nil && v.T.Sort != c.sortOf(x.Type()) {
			// a value of type-parameter type converted to an interface (generic
			// code, uninstantiated): boxed like any concrete value
			f.define(x, f.makeInterface(v, x.Type()))
			break
		}
		v.Typ = x.Type()
		f.vals[x] = v
	case *ssa.ChangeType:
		v := f.get(x.X)
		if _, isTP := x.X.Type().(*types.TypeParam); isTP && v.T != nil && v.T.Sort != c.sortOf(x.Type()) {
			f.define(x, f.makeInterface(v, x.Type()))
			break
		}
		v.Typ = x.Type()
		f.vals[x] = v
	case *ssa.Convert:
		f.define(x, f.convert(x, st))
	case *ssa.MultiConvert:
		f.define(x, f.freshVal(x.Name(), x.Type(), st))
	case *ssa.SliceToArrayPointer:
		f.define(x, f.freshVal(x.Name(), x.Type(), st))
	case *ssa.Extract:
		t := f.get(x.Tuple)
		if t.Tuple == nil {
			panic("extract from non-tuple " + x.Tuple.String())
		}
		f.vals[x] = t.Tuple[x.Index]
	case *ssa.TypeAssert:
		f.typeAssert(x, pc, st)
	case *ssa.MakeClosure:
		ref := c.newRef(st)
		var bs []Val
		for _, b := range x.Bindings {
			bs = append(bs, f.get(b))
		}
		f.vals[x] = Val{T: ref, Typ: x.Type(), Fn: &closureVal{fn: x.Fn.(*ssa.Function), bindings: bs}}
	case *ssa.Range:
		mv := f.get(x.X)
		ri := &rangeInfo{m: mv}
		if mt, ok := mv.Typ.Underlying().(*types.Map); ok {
			ri.mapType = mt
			ri.visited = fmt.Sprintf("$visited$%s$%s", f.tag, x.Name())
			as := ArraySort(c.sortOf(mt.Key()), BoolSort)
			c.heapSort[ri.visited] = as
			st[ri.visited] = mk(fmt.Sprintf("((as const %s) false)", as), as)
			// remember the domain at loop start
			_, _, _, d, _, _ := c.mapHeaps(st, mt)
			st[ri.visited+"$dom0"] = Select(d, mv.T)
			c.heapSort[ri.visited+"$dom0"] = as
		} else {
			ri.isStr = true
		}
		f.rangeOf[x] = ri
		f.vals[x] = Val{T: IntLit(0), Typ: x.Type()}
	case *ssa.Next:
		f.next(x, pc, st)
	case *ssa.Call:
		f.call(x, x.Common(), pc, st)
	case *ssa.Defer:
		f.defers = append(f.defers, deferRec{x, x.Block(), pc})
	case *ssa.RunDefers:
		for i := len(f.defers) - 1; i >= 0; i-- {
			d := f.defers[i]
			if d.block.Dominates(x.Block()) {
				f.call(nil, d.call.Common(), pc, st)
			} else {
				alt := st.clone()
				f.call(nil, d.call.Common(), And(pc, d.pc), alt)
				m := f.mergeState(d.pc, alt, st)
				for k := range st {
					delete(st, k)
				}
				for k, v := range m {
					st[k] = v
				}
			}
		}
	case *ssa.Go:
		f.goStmt(x, pc, st)
	case *ssa.Send:
		// blocking send on a buffered channel: completes when there is room
		ch := f.get(x.Chan)
		n := f.chanLen(ch, st).T
		c.addHyp(Implies(pc, c.cmp(token.LSS, n, f.chanCap(ch), true)))
		st["Chan$len"] = Store(st["Chan$len"], ch.T, c.arith(token.ADD, n, c.idxConst(1), types.Typ[types.Int]))
		c.note("channels are modelled as counters (len/cap); element values are not tracked")
	case *ssa.Select:
		if !x.Blocking && len(x.States) == 1 && x.States[0].Dir == types.SendOnly {
			// select { case ch <- v: ...; default: ... }: the send happens iff the buffer has room
			ch := f.get(x.States[0].Chan)
			n := f.chanLen(ch, st).T
			ok := c.fresh("select_sent", BoolSort)
			c.addHyp(Eq(ok, c.cmp(token.LSS, n, f.chanCap(ch), true)))
			st["Chan$len"] = Store(st["Chan$len"], ch.T, Ite(ok, c.arith(token.ADD, n, c.idxConst(1), types.Typ[types.Int]), n))
			c.note("non-blocking send on a buffered channel succeeds iff len < cap (no receiver is parked on a semaphore channel)")
			tup := x.Type().(*types.Tuple)
			vs := []Val{{T: Ite(ok, c.idxConst(0), c.intConst(big.NewInt(-1), types.Typ[types.Int])), Typ: types.Typ[types.Int]}, {T: False, Typ: types.Typ[types.Bool]}}
			for i := 2; i < tup.Len(); i++ {
				vs = append(vs, f.freshVal("select_recv", tup.At(i).Type(), st))
			}
			f.vals[x] = Val{Tuple: vs, Typ: x.Type()}
			break
		}
		sv := f.freshVal(x.Name(), x.Type(), st)
		if len(sv.Tuple) > 0 && sv.Tuple[0].T != nil {
			// the chosen case index: one of the states, or -1 (default) when non-blocking
			lo := c.idxConst(0)
			if !x.Blocking {
				lo = c.intConst(big.NewInt(-1), types.Typ[types.Int])
			}
			c.addHyp(Implies(pc, And(c.cmp(token.LEQ, lo, sv.Tuple[0].T, true), c.cmp(token.LSS, sv.Tuple[0].T, c.idxConst(int64(len(x.States))), true))))
		}
		f.vals[x] = sv
		f.c.note("select in " + funcKey(f.fn) + " returns an arbitrary case")
	default:
		panic(fmt.Sprintf("unsupported instruction %T: %s", instr, instr))
	}
}

type closureVal struct {
	fn       *ssa.Function
	bindings []Val
}

func (c *Ctx) strLen(s *Term) *Term {
	if c.strMode {
		if c.mode == ModeBV {
			return mk("(_ int2bv 64)", BVSort(64), mk("str.len", IntSort, s))
		}
		return mk("str.len", IntSort, s)
	}
	c.strSort()
	return App("str_len", c.idxSort(), s)
}

func (c *Ctx) strAt(s, i *Term) *Term {
	c.declFun("str_at", []*Sort{c.strSort(), c.idxSort()}, c.intSort(8))
	return App("str_at", c.intSort(8), s, i)
}

func (f *frame) binop(x *ssa.BinOp, pc *Term) Val {
	c := f.c
	a, b := f.get(x.X), f.get(x.Y)
	t := x.X.Type()
	switch x.Op {
	case token.EQL, token.NEQ:
		at, bt := f.term(a), f.term(b)
		if !sameSort(at.Sort, bt.Sort) {
			// interface compared with concrete nil etc.
			return Val{T: c.fresh("cmp", BoolSort), Typ: x.Type()}
		}
		r := Eq(at, bt)
		if x.Op == token.NEQ {
			r = Not(r)
		}
		return Val{T: r, Typ: x.Type()}
	case token.LSS, token.LEQ, token.GTR, token.GEQ:
		if bs, ok := t.Underlying().(*types.Basic); ok && bs.Info()&types.IsString != 0 {
			return Val{T: c.strCmp(x.Op, a.T, b.T), Typ: x.Type()}
		}
		_, signed, _ := intInfo(t)
		return Val{T: c.cmp(x.Op, a.T, b.T, signed), Typ: x.Type()}
	}
	if bs, ok := t.Underlying().(*types.Basic); ok {
		if bs.Info()&types.IsString != 0 && x.Op == token.ADD {
			return Val{T: c.strCat(a.T, b.T), Typ: x.Type()}
		}
		if bs.Info()&types.IsBoolean != 0 {
			switch x.Op {
			case token.AND, token.LAND:
				return Val{T: And(a.T, b.T), Typ: x.Type()}
			case token.OR, token.LOR:
				return Val{T: Or(a.T, b.T), Typ: x.Type()}
			case token.XOR:
				return Val{T: Not(Eq(a.T, b.T)), Typ: x.Type()}
			}
		}
	}
	bt := b.T
	if x.Op == token.SHL || x.Op == token.SHR {
		// shift count: in int mode we need its value; negative counts panic
		if c.mode == ModeInt {
			bt = b.T
		}
		if _, signed, _ := intInfo(x.Y.Type()); signed {
			f.boundsCheck(pc, c.cmp(token.GEQ, b.T, c.intConst(big.NewInt(0), x.Y.Type()), true), x, "negative-shift")
		}
	}
	if x.Op == token.QUO || x.Op == token.REM {
		if _, _, isInt := intInfo(t); isInt {
			f.boundsCheck(pc, Not(Eq(b.T, c.intConst(big.NewInt(0), t))), x, "div-by-zero")
		}
	}
	r := c.arith(x.Op, a.T, bt, t)
	if c.mode == ModeInt {
		if _, _, isInt := intInfo(t); isInt {
			switch x.Op {
			case token.ADD, token.SUB, token.MUL, token.SHL:
				rng := c.typeRange(r, t)
				if f.flagOn("overflow", false) && (!f.inlined) {
					f.panics++
					f.check("no-overflow", f.oblName(fmt.Sprintf("no-overflow#%d(%s)", f.panics, x.Op)), pc, rng, x.Pos(), nil)
				} else {
					c.note("machine arithmetic treated as mathematical (no overflow assumed) in " + funcKey(f.root().fn))
					c.addHyp(Implies(pc, rng))
				}
			}
		}
	}
	return Val{T: r, Typ: x.Type()}
}

func (c *Ctx) strCat(a, b *Term) *Term {
	if c.strMode {
		return mk("str.++", StringSort, a, b)
	}
	c.declFun("str_cat", []*Sort{c.strSort(), c.strSort()}, c.strSort())
	r := App("str_cat", c.strSort(), a, b)
	c.addHyp(Eq(c.strLen(r), c.arith(token.ADD, c.strLen(a), c.strLen(b), types.Typ[types.Int])))
	return r
}

func (f *frame) unop(x *ssa.UnOp, pc *Term, st State) Val {
	c := f.c
	a := f.get(x.X)
	switch x.Op {
	case token.MUL: // load
		if a.P == nil && f.flagOn("nil", false) && !f.inlined {
			f.boundsCheck(pc, Not(Eq(a.T, IntLit(0))), x, "nil-deref")
		}
		v := f.load(st, a)
		v.Typ = x.Type()
		if v.T != nil {
			c.addHyp(c.wellTypedIn(v.T, x.Type(), st))
		}
		return v
	case token.NOT:
		return Val{T: Not(a.T), Typ: x.Type()}
	case token.SUB:
		if a.T.Sort.Kind == SFP64 {
			return Val{T: mk("fp.neg", FP64Sort, a.T), Typ: x.Type()}
		}
		if c.mode == ModeBV {
			return Val{T: mk("bvneg", a.T.Sort, a.T), Typ: x.Type()}
		}
		return Val{T: mk("-", IntSort, a.T), Typ: x.Type()}
	case token.XOR:
		if c.mode == ModeBV {
			return Val{T: mk("bvnot", a.T.Sort, a.T), Typ: x.Type()}
		}
		_, signed, _ := intInfo(x.Type())
		if signed {
			return Val{T: mk("-", IntSort, mk("-", IntSort, a.T), IntLit(1)), Typ: x.Type()}
		}
		w, _, _ := intInfo(x.Type())
		return Val{T: mk("-", IntSort, BigIntLit(new(big.Int).Sub(new(big.Int).Lsh(big.NewInt(1), uint(w)), big.NewInt(1))), a.T), Typ: x.Type()}
	case token.ARROW:
		c.note("channel receive returns an arbitrary value; completes when the channel is non-empty")
		n := f.chanLen(a, st).T
		c.addHyp(Implies(pc, c.cmp(token.GTR, n, c.idxConst(0), true)))
		st["Chan$len"] = Store(st["Chan$len"], a.T, c.arith(token.SUB, n, c.idxConst(1), types.Typ[types.Int]))
		return f.freshVal(x.Name(), x.Type(), st)
	}
	panic("unop " + x.Op.String())
}

func (f *frame) convert(x *ssa.Convert, st State) Val {
	c := f.c
	a := f.get(x.X)
	from, to := x.X.Type(), x.Type()
	_, _, fi := intInfo(from)
	_, _, ti := intInfo(to)
	switch {
	case fi && ti:
		return Val{T: c.convertInt(a.T, from, to), Typ: to}
	case fi && isFloat(to):
		_, signed, _ := intInfo(from)
		if c.mode == ModeBV {
			op := "(_ to_fp_unsigned 11 53)"
			if signed {
				op = "(_ to_fp 11 53)"
			}
			return Val{T: mk(op, FP64Sort, Var("RNE", nil), a.T), Typ: to}
		}
		return Val{T: mk("(_ to_fp 11 53)", FP64Sort, Var("RNE", nil), mk("to_real", nil, a.T)), Typ: to}
	case isFloat(from) && isFloat(to):
		return Val{T: a.T, Typ: to}
	}
	if sameSort(c.sortOf(from), c.sortOf(to)) && a.T != nil {
		return Val{T: a.T, Typ: to}
	}
	// string <-> []byte etc.
	c.note("conversion " + from.String() + " -> " + to.String() + " abstracted")
	return f.freshVal(x.Name(), to, st)
}

func isFloat(t types.Type) bool {
	b, ok := t.Underlying().(*types.Basic)
	return ok && b.Info()&types.IsFloat != 0
}

func (f *frame) makeInterface(v Val, it types.Type) Val {
	c := f.c
	is := c.ifaceSort()
	tn := typeName(v.Typ)
	fn := "box$" + tn
	vs := c.sortOf(v.Typ)
	vt := f.term(v)
	c.declFun(fn, []*Sort{vs}, is)
	c.declFun("unbox$"+tn, []*Sort{is}, vs)
	b := App(fn, is, vt)
	c.addHyp(Eq(App("unbox$"+tn, vs, b), vt))
	c.addHyp(Eq(App("iface_type", IntSort, b), c.typeID(v.Typ)))
	c.addHyp(Not(Eq(b, Var("iface_nil", is))))
	return Val{T: b, Typ: it, Fn: v.Fn}
}

func (c *Ctx) typeID(t types.Type) *Term {
	name := "type$" + typeName(t)
	if !c.declared[name] {
		// distinct ids: use a per-ctx counter
		n := 1
		for k := range c.declared {
			if strings.HasPrefix(k, "type$") {
				n++
			}
		}
		c.declare(name, fmt.Sprintf("(define-fun %s () Int %d)", name, n))
	}
	return Var(name, IntSort)
}

func (f *frame) typeAssert(x *ssa.TypeAssert, pc *Term, st State) {
	c := f.c
	v := f.get(x.X)
	at := x.AssertedType
	if _, isTP := at.(*types.TypeParam); !isTP && types.IsInterface(at) {
		// interface-to-interface: success unknown
		ok := c.fresh("ta_ok", BoolSort)
		res := Val{T: v.T, Typ: at}
		if x.CommaOk {
			f.vals[x] = Val{Tuple: []Val{res, {T: ok, Typ: types.Typ[types.Bool]}}, Typ: x.Type()}
		} else {
			f.vals[x] = res
		}
		return
	}
	tn := typeName(at)
	vs := c.sortOf(at)
	is := c.ifaceSort()
	c.declFun("unbox$"+tn, []*Sort{is}, vs)
	c.declFun("box$"+tn, []*Sort{vs}, is)
	ok := And(Not(Eq(v.T, Var("iface_nil", is))), Eq(App("iface_type", IntSort, v.T), c.typeID(at)))
	un := App("unbox$"+tn, vs, v.T)
	// boxing is the inverse of unboxing on values of that dynamic type
	c.addHyp(Implies(ok, Eq(App("box$"+tn, is, un), v.T)))
	c.addHyp(c.wellTypedIn(un, at, st))
	if x.CommaOk {
		res := Val{T: Ite(ok, un, c.zero(at)), Typ: at}
		f.vals[x] = Val{Tuple: []Val{res, {T: ok, Typ: types.Typ[types.Bool]}}, Typ: x.Type()}
		return
	}
	if f.flagOn("typeassert", false) {
		f.boundsCheck(pc, ok, x, "type-assert")
	} else {
		c.addHyp(Implies(pc, ok))
	}
	f.vals[x] = Val{T: un, Typ: at}
}

func (f *frame) sliceOp(x *ssa.Slice, pc *Term, st State) {
	c := f.c
	base := f.get(x.X)
	z := c.idxConst(0)
	getIdx := func(v ssa.Value) *Term {
		if v == nil {
			return nil
		}
		return c.idxOf(f.get(v).T, v.Type())
	}
	lo, hi, mx := getIdx(x.Low), getIdx(x.High), getIdx(x.Max)
	if lo == nil {
		lo = z
	}
	le := func(a, b *Term) *Term { return c.cmp(token.LEQ, a, b, true) }
	switch bt := base.Typ.Underlying().(type) {
	case *types.Slice:
		s := base.T
		if hi == nil {
			hi = c.slLen(s)
		}
		capv := c.slCap(s)
		newcap := c.arith(token.SUB, capv, lo, types.Typ[types.Int])
		if mx != nil {
			f.boundsCheck(pc, And(le(z, lo), le(lo, hi), le(hi, mx), le(mx, capv)), x, "slice3")
			newcap = c.arith(token.SUB, mx, lo, types.Typ[types.Int])
		} else {
			f.boundsCheck(pc, And(le(z, lo), le(lo, hi), le(hi, capv)), x, "slice")
		}
		f.define(x, Val{T: c.mkSlice(c.slBase(s), c.arith(token.ADD, c.slOff(s), lo, types.Typ[types.Int]), c.arith(token.SUB, hi, lo, types.Typ[types.Int]), newcap), Typ: x.Type()})
	case *types.Pointer: // pointer to array
		arr := bt.Elem().Underlying().(*types.Array)
		n := c.idxConst(arr.Len())
		if hi == nil {
			hi = n
		}
		f.boundsCheck(pc, And(le(z, lo), le(lo, hi), le(hi, n)), x, "slice-array")
		// the array lives in a cell/field; give the slice a base that stands for it.
		// Writes through the slice go to E$elem[base]; to keep array and slice views
		// coherent we move the array contents into the element heap at creation.
		ref := f.term(base)
		if base.P != nil {
			// an array that is a struct field: its contents are copied into the
			// element heap when it is sliced
			f.c.note("slice of an array-typed struct field: contents copied into the element heap at slicing time (later writes through the field are not seen through the slice)")
			hn, h := c.elemHeap(st, arr.Elem())
			cur := f.load(st, base)
			st[hn] = Store(h, ref, cur.T)
		}
		newcap := c.arith(token.SUB, n, lo, types.Typ[types.Int])
		f.define(x, Val{T: c.mkSlice(ref, lo, c.arith(token.SUB, hi, lo, types.Typ[types.Int]), newcap), Typ: x.Type()})
	case *types.Basic: // string
		if hi == nil {
			hi = c.strLen(base.T)
		}
		f.boundsCheck(pc, And(le(z, lo), le(lo, hi), le(hi, c.strLen(base.T))), x, "substring")
		c.declFun("str_sub", []*Sort{c.strSort(), c.idxSort(), c.idxSort()}, c.strSort())
		r := App("str_sub", c.strSort(), base.T, lo, hi)
		c.addHyp(Implies(pc, Eq(c.strLen(r), c.arith(token.SUB, hi, lo, types.Typ[types.Int]))))
		f.define(x, Val{T: r, Typ: x.Type()})
	default:
		panic("slice of " + base.Typ.String())
	}
}

func (f *frame) lookup(x *ssa.Lookup, pc *Term, st State) {
	c := f.c
	m := f.get(x.X)
	mt, ok := m.Typ.Underlying().(*types.Map)
	if !ok {
		// string index
		idx := c.idxOf(f.get(x.Index).T, x.Index.Type())
		f.boundsCheck(pc, And(c.cmp(token.LEQ, c.idxConst(0), idx, true), c.cmp(token.LSS, idx, c.strLen(m.T), true)), x, "string-index")
		f.define(x, Val{T: c.strAt(m.T, idx), Typ: x.Type()})
		return
	}
	k := f.term(f.get(x.Index))
	_, _, _, d, v, _ := c.mapHeaps(st, mt)
	has := Select(Select(d, m.T), k)
	val := Ite(has, Select(Select(v, m.T), k), c.zero(mt.Elem()))
	c.addHyp(c.wellTypedIn(Select(Select(v, m.T), k), mt.Elem(), st))
	if x.CommaOk {
		f.vals[x] = Val{Tuple: []Val{{T: val, Typ: mt.Elem()}, {T: has, Typ: types.Typ[types.Bool]}}, Typ: x.Type()}
		return
	}
	f.define(x, Val{T: val, Typ: mt.Elem()})
}

func (f *frame) mapUpdate(st State, m Val, k, v *Term) {
	c := f.c
	mt := m.Typ.Underlying().(*types.Map)
	dn, vn, ln, d, vv, l := c.mapHeaps(st, mt)
	had := Select(Select(d, m.T), k)
	st[dn] = Store(d, m.T, Store(Select(d, m.T), k, True))
	st[vn] = Store(vv, m.T, Store(Select(vv, m.T), k, v))
	st[ln] = Store(l, m.T, Ite(had, Select(l, m.T), c.arith(token.ADD, Select(l, m.T), c.idxConst(1), types.Typ[types.Int])))
}

func (f *frame) mapDelete(st State, m Val, k *Term) {
	c := f.c
	mt := m.Typ.Underlying().(*types.Map)
	dn, _, ln, d, _, l := c.mapHeaps(st, mt)
	had := And(Not(Eq(m.T, IntLit(0))), Select(Select(d, m.T), k))
	st[dn] = Store(d, m.T, Store(Select(d, m.T), k, False))
	st[ln] = Store(l, m.T, Ite(had, c.arith(token.SUB, Select(l, m.T), c.idxConst(1), types.Typ[types.Int]), Select(l, m.T)))
}

func (f *frame) next(x *ssa.Next, pc *Term, st State) {
	c := f.c
	ri := f.rangeOf[x.Iter]
	tup := x.Type().(*types.Tuple)
	ok := c.fresh("next_ok", BoolSort)
	if ri == nil || ri.isStr || ri.mapType == nil {
		k := f.freshVal("next_k", tup.At(1).Type(), st)
		v := f.freshVal("next_v", tup.At(2).Type(), st)
		f.vals[x] = Val{Tuple: []Val{{T: ok, Typ: types.Typ[types.Bool]}, k, v}, Typ: x.Type()}
		return
	}
	mt := ri.mapType
	k := c.fresh("next_k", c.sortOf(mt.Key()))
	c.addHyp(c.wellTypedIn(k, mt.Key(), st))
	_, _, _, d, vh, _ := c.mapHeaps(st, mt)
	dom := Select(d, ri.m.T)
	val := Select(Select(vh, ri.m.T), k)
	c.addHyp(c.wellTypedIn(val, mt.Elem(), st))
	vis := st[ri.visited]
	if vis == nil {
		vis = c.heapVar(st, ri.visited, c.heapSort[ri.visited])
	}
	dom0 := st[ri.visited+"$dom0"]
	if dom0 == nil {
		dom0 = c.heapVar(st, ri.visited+"$dom0", c.heapSort[ri.visited+"$dom0"])
	}
	// ok: k is in the map now and was not visited before
	c.addHyp(Implies(And(pc, ok), And(Not(Eq(ri.m.T, IntLit(0))), Select(dom, k), Not(Select(vis, k)))))
	// !ok: every key present since the start and still present has been visited
	kk := Var("k!q", c.sortOf(mt.Key()))
	c.addHyp(Implies(And(pc, Not(ok)), Forall([]*Term{kk}, Implies(And(Select(dom0, kk), Select(dom, kk), Not(Eq(ri.m.T, IntLit(0)))), Select(vis, kk)))))
	st[ri.visited] = Ite(ok, Store(vis, k, True), vis)
	f.vals[x] = Val{Tuple: []Val{{T: ok, Typ: types.Typ[types.Bool]}, {T: k, Typ: mt.Key()}, {T: val, Typ: mt.Elem()}}, Typ: x.Type()}
}

func (f *frame) goStmt(x *ssa.Go, pc *Term, st State) {
	f.c.note("go statement in " + funcKey(f.fn) + ": goroutine body not followed (abstract call)")
	var pre State
	if f.spec != nil && len(f.spec.Sites) > 0 {
		pre = st.clone()
	}
	f.abstractCall(nil, x.Common(), pc, st, "go")
	if pre != nil {
		// "at call N of KEY ..." clauses also anchor on go statements
		f.siteClauses(x, nil, x.Common(), pc, pre, st)
	}
}
