package main

import (
	"strings"

	"golang.org/x/tools/go/ssa"
)

// isAtomicRead: the instruction is a call of an atomic Load (sync/atomic or
// go.uber.org/atomic) - a read of the cell whose address it receives.
func isAtomicRead(in ssa.Instruction) bool {
	ci, ok := in.(ssa.CallInstruction)
	if !ok {
		return false
	}
	callee := ci.Common().StaticCallee()
	if callee == nil {
		return false
	}
	p, k := calleeKeyOf(callee)
	if p != "sync/atomic" && p != "go.uber.org/atomic" {
		return false
	}
	return strings.HasSuffix(k, ".Load") || strings.HasPrefix(k, "Load")
}

// isReadOnlyContractCall: the instruction calls a function under a (verified,
// not trusted) contract whose frame is "modifies nothing".
func isReadOnlyContractCall(in ssa.Instruction, specs *SpecSet) bool {
	ci, ok := in.(ssa.CallInstruction)
	if !ok {
		return false
	}
	callee := ci.Common().StaticCallee()
	if callee == nil {
		return false
	}
	p, k := calleeKeyOf(callee)
	sp := specs.Funcs[p+"::"+k]
	if sp == nil || !sp.HasMod || sp.Flags["trusted"] != "" {
		return false
	}
	for _, m := range sp.Modifies {
		if strings.TrimSpace(m) != "nothing" && strings.TrimSpace(m) != "" {
			return false
		}
	}
	return true
}
