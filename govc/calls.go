package main

import (
	"fmt"
	"go/token"
	"go/types"
	"math/big"
	"os"
	"strings"

	"golang.org/x/tools/go/ssa"
)

func calleeKeyOf(fn *ssa.Function) (pkgPath, key string) {
	o := fn
	if fn.Origin() != nil {
		o = fn.Origin()
	}
	if o.Pkg != nil {
		pkgPath = o.Pkg.Pkg.Path()
	} else if o.Object() != nil && o.Object().Pkg() != nil {
		pkgPath = o.Object().Pkg().Path()
	}
	return pkgPath, funcKey(fn)
}

func fullName(fn *ssa.Function) string {
	p, k := calleeKeyOf(fn)
	return p + "::" + k
}

func (f *frame) inChain(fn *ssa.Function) bool {
	for x := f; x != nil; x = x.parent {
		if x.fn == fn {
			return true
		}
	}
	return false
}

func hasLoops(fn *ssa.Function) bool {
	for _, b := range fn.Blocks {
		for _, s := range b.Succs {
			if s.Dominates(b) {
				return true
			}
		}
	}
	return false
}

func instrCount(fn *ssa.Function) int {
	n := 0
	for _, b := range fn.Blocks {
		n += len(b.Instrs)
	}
	return n
}

// call executes a call instruction and then applies the site clauses
// ("at call N of KEY assert/ghost ...") of the function under contract.
func (f *frame) call(x *ssa.Call, cc *ssa.CallCommon, pc *Term, st State) {
	var pre State
	if f.spec != nil && len(f.spec.Sites) > 0 && x != nil {
		pre = st.clone()
	}
	f.callInner(x, cc, pc, st)
	if pre == nil {
		return
	}
	f.siteClauses(x, x, cc, pc, pre, st)
}

// siteClauses applies the "at call N of KEY ..." clauses of the function under
// contract to one call instruction (a call, or a go statement: x is nil then).
func (f *frame) siteClauses(in ssa.Instruction, x *ssa.Call, cc *ssa.CallCommon, pc *Term, pre, st State) {
	key := callKey(cc)
	ord := -1
	for _, site := range f.spec.Sites {
		if site.Callee != key {
			continue
		}
		if ord < 0 {
			ord = siteOrdinal(f.fn, in, key)
		}
		if site.Ord != ord {
			continue
		}
		site.Used = true
		// old(..) is the function's entry state; argN are the call's arguments
		// (receiver first); result/resultN its results
		env := f.newSpecEnv(st, f.entry)
		env.at = in.Block()
		env.atInstr = in
		ai := 0
		if cc.IsInvoke() {
			env.vars["arg0"] = f.get(cc.Value)
			ai = 1
		}
		for _, a := range cc.Args {
			env.vars[fmt.Sprintf("arg%d", ai)] = f.get(a)
			ai++
		}
		for i, n := range f.spec.Params {
			if i < len(f.params) {
				env.setParam(n, f.params[i])
			}
		}
		// elements of a short slice argument (a variadic pack) as they were when
		// the call was made: argN_J  (the callee may overwrite the backing array)
		for n := 0; n < ai; n++ {
			av, ok := env.vars[fmt.Sprintf("arg%d", n)]
			if !ok || av.Typ == nil {
				continue
			}
			if _, isSl := av.Typ.Underlying().(*types.Slice); !isSl || av.T == nil {
				continue
			}
			ln, known := f.c.constLen(av.T)
			if !known {
				// a variadic pack built at the call: slice of a fresh fixed-size array
				k := n
				if cc.IsInvoke() {
					k = n - 1
				}
				if k >= 0 && k < len(cc.Args) {
					if sl, isS := cc.Args[k].(*ssa.Slice); isS && sl.Low == nil && sl.High == nil {
						if pt, isP := sl.X.Type().Underlying().(*types.Pointer); isP {
							if at, isA := pt.Elem().Underlying().(*types.Array); isA {
								ln, known = at.Len(), true
							}
						}
					}
				}
			}
			if known && ln >= 1 && ln <= 4 {
				for j := int64(0); j < ln; j++ {
					if ex, err := parseSExpr(fmt.Sprintf("arg%d[%d]", n, j)); err == nil {
						func() {
							defer func() { recover() }()
							saved := env.st
							env.st = pre
							v := env.eval(ex)
							env.st = saved
							env.vars[fmt.Sprintf("arg%d_%d", n, j)] = v
						}()
					}
				}
			}
		}
		if x != nil {
			if rv, ok := f.vals[x]; ok {
				if rv.Tuple != nil {
					env.results = rv.Tuple
				} else {
					env.results = []Val{rv}
				}
			}
		}
		switch site.Kind {
		case "assert":
			// an assertion about a call is a condition for making it: it is
			// evaluated in the state just BEFORE the call (ghost updates and
			// assumptions use the state after it)
			env.st = pre
			if g := f.safeEval(env, site.C); g != nil {
				f.check("assert", f.oblName(fmt.Sprintf("call#%d(%s)/assert%s", ord, key, clauseTag(site.C, 0))), pc, g, in.Pos(), site.C)
			}
		case "interference":
			for _, it := range strings.Split(site.Ghost, ",") {
				for _, h := range f.c.resolveHeapNames(strings.TrimSpace(it), f.fn) {
					f.c.havocHeap(st, h)
				}
			}
			f.c.note("INTERFERENCE point in " + funcKey(f.fn) + " at " + key + ": other goroutines may change " + site.Ghost + " while the call runs (havocked)")
		case "assume":
			if g := f.safeEval(env, site.C); g != nil {
				f.c.note("ASSUMED at call site in " + funcKey(f.fn) + ": " + site.C.Text)
				f.c.addHyp(Implies(pc, g))
			}
		case "ghost":
			func() {
				defer func() {
					if r := recover(); r != nil {
						if se, ok := r.(specError); ok {
							f.c.warn = append(f.c.warn, fmt.Sprintf("SPEC-ERROR %s:%d: %s", site.C.File, site.C.Line, se.msg))
							f.c.specErrors++
							return
						}
						panic(r)
					}
				}()
				v := env.eval(site.C.E)
				g, ok := f.c.specs.Ghosts[site.Ghost]
				if !ok {
					env.fail("unknown ghost variable %s", site.Ghost)
				}
				v = env.fit(v, f.c.evalType(g.Type, env.pkg()))
				hn := "ghost$" + site.Ghost
				cur := f.c.heapVar(st, hn, f.term(v).Sort)
				_ = cur
				st[hn] = f.term(v)
			}()
		}
	}
}

func (f *frame) callInner(x *ssa.Call, cc *ssa.CallCommon, pc *Term, st State) {
	c := f.c
	var resType types.Type
	if x != nil {
		resType = x.Type()
	} else {
		resType = cc.Signature().Results()
	}
	setRes := func(v Val) {
		if x == nil {
			return
		}
		if v.Typ == nil {
			v.Typ = x.Type()
		}
		if v.Tuple == nil && v.P == nil && v.T != nil {
			f.define(x, v)
		} else {
			f.vals[x] = v
		}
	}
	if b, ok := cc.Value.(*ssa.Builtin); ok {
		setRes(f.builtin(b, cc, pc, st, x))
		return
	}
	var callee *ssa.Function
	var bindings []Val
	var args []Val
	if !cc.IsInvoke() {
		callee = cc.StaticCallee()
		if callee == nil {
			fv := f.get(cc.Value)
			switch k := fv.Fn.(type) {
			case *closureVal:
				callee, bindings = k.fn, k.bindings
			case *ssa.Function:
				callee = k
			}
		} else if mc, ok := cc.Value.(*ssa.MakeClosure); ok {
			for _, b := range mc.Bindings {
				bindings = append(bindings, f.get(b))
			}
		}
	} else {
		// devirtualise when the dynamic type is statically visible
		recv := f.get(cc.Value)
		args = append(args, recv)
		if mi, ok := cc.Value.(*ssa.MakeInterface); ok {
			ms := c.prog.SSA.MethodSets.MethodSet(mi.X.Type())
			if sel := ms.Lookup(cc.Method.Pkg(), cc.Method.Name()); sel != nil {
				callee = c.prog.SSA.MethodValue(sel)
				args[0] = f.get(mi.X)
			}
		}
	}
	for _, a := range cc.Args {
		args = append(args, f.get(a))
	}
	if callee != nil {
		name := fullName(callee)
		if h, ok := intrinsics[name]; ok {
			if v, done := h(f, cc, args, pc, st, resType); done {
				setRes(v)
				return
			}
		}
		pkgPath, key := calleeKeyOf(callee)
		if sp := c.specs.Funcs[pkgPath+"::"+key]; sp != nil && !(f.root().spec == sp && f.parent == nil && false) {
			setRes(f.applyContract(sp, callee, args, pc, st, x, cc, resType))
			return
		}
		if len(callee.Blocks) > 0 && f.depth < maxInlineDepth && !f.inChain(callee) && !hasLoops(callee) && instrCount(callee) <= f.inlineLimit() && !noInline[name] {
			g := c.newFrame(callee, nil, f)
			if len(bindings) > 0 {
				g.free = map[ssa.Value]Val{}
				for i, fv := range callee.FreeVars {
					if i < len(bindings) {
						g.free[fv] = bindings[i]
					}
				}
			}
			if len(args) != len(callee.Params) {
				f.warnf("arity mismatch inlining %s", name)
			} else {
				rpc, res, out := g.run(pc, st, args)
				f.panics += g.panics
				// paths that do not return (panic) are excluded from the continuation
				if !isTrue(Implies(pc, rpc)) {
					c.addHyp(Implies(pc, rpc))
				}
				for k := range st {
					delete(st, k)
				}
				for k, v := range out {
					st[k] = v
				}
				switch len(res) {
				case 0:
				case 1:
					setRes(res[0])
				default:
					setRes(Val{Tuple: res, Typ: resType})
				}
				return
			}
		}
	}
	setRes(f.abstractCall(callee, cc, pc, st, "call"))
}

var noInline = map[string]bool{}

// siteOrdinal: ordinal (1-based, source order) of call instruction among the
// calls in fn to the same callee key.
func siteOrdinal(fn *ssa.Function, target ssa.Instruction, key string) int {
	n := 0
	for _, b := range fn.Blocks {
		for _, in := range b.Instrs {
			var cc *ssa.CallCommon
			switch k := in.(type) {
			case *ssa.Call:
				cc = k.Common()
			case *ssa.Defer:
				cc = k.Common()
			case *ssa.Go:
				cc = k.Common()
			}
			if cc == nil {
				continue
			}
			if callKey(cc) == key {
				n++
			}
			if in == target {
				return n
			}
		}
	}
	return 0
}

func callKey(cc *ssa.CallCommon) string {
	if cc.IsInvoke() {
		return "invoke " + cc.Method.Name()
	}
	if sc := cc.StaticCallee(); sc != nil {
		return funcKey(sc)
	}
	if b, ok := cc.Value.(*ssa.Builtin); ok {
		return "builtin " + b.Name()
	}
	return "dynamic"
}

func (f *frame) applyContract(sp *FuncSpec, callee *ssa.Function, args []Val, pc *Term, st State, x *ssa.Call, cc *ssa.CallCommon, resType types.Type) Val {
	c := f.c
	if tr := sp.Flags["trusted"]; tr != "" {
		c.note("assumed (trusted) contract on " + sp.PkgPath + "::" + sp.Key + " — " + tr)
	}
	env := f.newSpecEnv(st, st.clone())
	env.calleeOf = callee
	bindParams(env, sp, callee, args)
	ord := 0
	if x != nil {
		ord = siteOrdinal(f.fn, x, funcKey(callee))
	}
	site := fmt.Sprintf("call#%d(%s)", ord, sp.Key)
	assumeReq := false
	if rs := f.root().spec; rs != nil {
		for _, k := range strings.Split(rs.Flags["assume-requires"], ",") {
			if strings.TrimSpace(k) == sp.Key {
				assumeReq = true
			}
		}
	}
	if assumeReq {
		// "assume-requires K": the preconditions of K at its calls in this function
		// are ASSUMED (reported as an assumption), e.g. where the receiver is an
		// interior pointer the contract language cannot describe precisely
		for _, r := range sp.Requires {
			c.addHyp(Implies(pc, env.evalBool(r.E)))
		}
		c.note("ASSUMED, not checked: the preconditions of " + sp.Key + " at its calls in " + funcKey(f.root().fn) + " (assume-requires)")
	} else if !f.inlined || f.flagOn("check-inlined", false) {
		for i, r := range sp.Requires {
			g := env.evalBool(r.E)
			name := f.oblName(fmt.Sprintf("%s/requires#%d", site, i+1))
			if r.Label != "" {
				name = f.oblName(fmt.Sprintf("%s/requires:%s", site, r.Label))
			}
			var pos token.Pos
			if x != nil {
				pos = x.Pos()
			}
			f.check("requires", name, pc, g, pos, r)
		}
	} else {
		for _, r := range sp.Requires {
			c.addHyp(Implies(pc, env.evalBool(r.E)))
		}
	}
	old := st.clone()
	// frame
	var mods []string
	if sp.HasMod {
		for _, m := range sp.Modifies {
			// mapof(p) / elemsof(p): the heaps of the map / slice passed as parameter p
			// (for contracts on generic functions)
			if strings.HasPrefix(m, "mapof(") || strings.HasPrefix(m, "elemsof(") {
				pn := strings.TrimSuffix(m[strings.Index(m, "(")+1:], ")")
				for i, name := range sp.Params {
					if name != pn || i >= len(args) || args[i].Typ == nil {
						continue
					}
					switch u := args[i].Typ.Underlying().(type) {
					case *types.Map:
						mods = append(mods, mapHeapNames(u)...)
					case *types.Slice:
						mods = append(mods, "E$"+typeName(u.Elem()))
					}
				}
				continue
			}
			mods = append(mods, c.resolveHeapNames(m, callee)...)
		}
		for _, g := range specGhostWrites(sp) {
			mods = append(mods, "ghost$"+g)
		}
	} else {
		ms := c.modsOf(callee)
		// the computed mod-set is coarse; fields the caller declares preserved
		// (closed by structural writer obligations the callee cannot reach) stay
		kept := f.preservedHeaps(callee)
		if ms.all {
			c.havocAllExcept(st, kept)
		}
		keepGhosts := f.asyncBoundary(callee)
		for _, h := range ms.list() {
			if strings.HasPrefix(h, "ghost$") && keepGhosts[h[6:]] {
				continue
			}
			if !kept[h] {
				mods = append(mods, h)
			}
		}
	}
	privSnap := f.snapshotPrivate(old)
	for _, h := range mods {
		c.havocHeap(st, h)
	}
	f.keepPrivate(privSnap, st)
	// an argument that points INTO another object (field of struct type, slice
	// element): the callee's writes to "T.f" land in the container, not in the
	// H$T$f heap of free-standing T objects. Give the pointed-to struct an
	// arbitrary new value; the callee's postconditions then constrain it.
	for _, a := range args {
		if a.P == nil || a.Typ == nil {
			continue
		}
		if stt, ok := deref(a.Typ).Underlying().(*types.Struct); ok {
			touched := !sp.HasMod
			for i := 0; i < stt.NumFields() && !touched; i++ {
				hn := c.fieldHeapName(deref(a.Typ), stt.Field(i).Name())
				for _, m := range mods {
					if m == hn {
						touched = true
					}
				}
			}
			if touched {
				oldv := f.load(st, a)
				nv := c.fresh("interior_"+typeName(deref(a.Typ)), c.sortOf(deref(a.Typ)))
				// fields outside the callee's modifies clause keep their value
				if sp.HasMod {
					for i := 0; i < stt.NumFields(); i++ {
						hn := c.fieldHeapName(deref(a.Typ), stt.Field(i).Name())
						inMods := false
						for _, m := range mods {
							if m == hn {
								inMods = true
							}
						}
						if !inMods {
							c.addHyp(Eq(c.structField(deref(a.Typ), stt, nv, i), c.structField(deref(a.Typ), stt, oldv.T, i)))
						}
					}
				}
				f.store(st, a, nv)
			}
		}
	}
	c.bumpAlloc(st) // the callee may have allocated
	for _, gi := range sp.GhostInits {
		// the callee resets and then sets this flag: its value after the call is
		// whatever the callee's postconditions say
		hn := "ghost$" + gi.Ghost
		if g, ok := c.specs.Ghosts[gi.Ghost]; ok {
			if t := c.evalType(g.Type, pkgOfFn(callee)); t != nil {
				c.heapVar(st, hn, c.sortOf(t))
			}
		}
		c.havocHeap(st, hn)
	}
	// results
	var res Val
	var results []Val
	if tup, ok := resType.(*types.Tuple); ok {
		if tup.Len() > 0 {
			res = f.freshVal("ret_"+callee.Name(), resType, st)
			results = res.Tuple
		}
	} else if resType != nil {
		res = f.freshVal("ret_"+callee.Name(), resType, st)
		results = []Val{res}
	}
	post := f.newSpecEnv(st, old)
	post.calleeOf = callee
	bindParams(post, sp, callee, args)
	post.results = results
	f.applyGhostSets(sp, post, st)
	for _, e := range sp.Ensures {
		c.addHyp(Implies(pc, post.evalBool(e.E)))
	}
	return res
}

func bindParams(env *specEnv, sp *FuncSpec, callee *ssa.Function, args []Val) {
	for i, a := range args {
		if i < len(sp.Params) {
			env.vars[sp.Params[i]] = a
		}
		if i < len(callee.Params) {
			if _, ok := env.vars[callee.Params[i].Name()]; !ok {
				env.vars[callee.Params[i].Name()] = a
			}
		}
	}
}

func (c *Ctx) havocHeap(st State, name string) {
	srt, ok := c.heapSort[name]
	if !ok && strings.HasPrefix(name, "ghost$") {
		// a ghost variable not referenced so far: its sort comes from its declaration
		if g := c.specs.Ghosts[name[6:]]; g != nil {
			if sp := c.prog.ByPkg[g.PkgPath]; sp != nil {
				if t := c.evalType(g.Type, sp.Pkg); t != nil {
					srt, ok = c.sortOf(t), true
					c.heapSort[name] = srt
				}
			}
		}
	}
	if !ok {
		if cur, ok2 := st[name]; ok2 && !isMarker(cur) {
			srt = cur.Sort
		} else {
			// not referenced so far: remember that it no longer has its entry value
			st[name] = havocMarker
			return
		}
	}
	st[name] = c.fresh(name, srt)
}

func (c *Ctx) havocAll(st State) {
	for _, k := range sortedKeys(st) {
		if k == "$alloc" || strings.HasPrefix(k, "$visited") || strings.HasPrefix(k, "ghost$") {
			continue
		}
		if isMarker(st[k]) {
			continue
		}
		st[k] = c.fresh(k, st[k].Sort)
	}
	st["$epoch"] = c.fresh("epoch", IntSort)
}

// resolveHeapNames maps a modifies item to heap names: "T.f", "elems(T)",
// "map(K,V)", "cell(T)", "ghost x", or a raw heap name.
func (c *Ctx) resolveHeapNames(item string, ctxFn *ssa.Function) []string {
	item = strings.TrimSpace(item)
	if strings.HasPrefix(item, "H$") || strings.HasPrefix(item, "E$") || strings.HasPrefix(item, "M") && strings.Contains(item, "$") || strings.HasPrefix(item, "P$") || strings.HasPrefix(item, "G$") {
		return []string{item}
	}
	if strings.HasPrefix(item, "ghost ") {
		return []string{"ghost$" + strings.TrimSpace(item[6:])}
	}
	if strings.HasPrefix(item, "mapof(") || strings.HasPrefix(item, "elemsof(") {
		pn := strings.TrimSuffix(item[strings.Index(item, "(")+1:], ")")
		for _, p := range ctxFn.Params {
			if p.Name() != pn {
				continue
			}
			switch u := p.Type().Underlying().(type) {
			case *types.Map:
				return mapHeapNames(u)
			case *types.Slice:
				return []string{"E$" + typeName(u.Elem())}
			}
		}
		return nil
	}
	pkg := pkgOfFn(ctxFn)
	if strings.HasPrefix(item, "elems(") {
		t := c.evalType(strings.TrimSuffix(item[6:], ")"), pkg)
		if t != nil {
			return []string{"E$" + typeName(t)}
		}
	}
	if strings.HasPrefix(item, "cell(") {
		t := c.evalType(strings.TrimSuffix(item[5:], ")"), pkg)
		if t != nil {
			return []string{"P$" + typeName(t)}
		}
	}
	if strings.HasPrefix(item, "map(") {
		parts := splitTop(strings.TrimSuffix(item[4:], ")"), ',')
		if len(parts) == 2 {
			k, v := c.evalType(parts[0], pkg), c.evalType(parts[1], pkg)
			if k != nil && v != nil {
				kk := typeName(k) + "$" + typeName(v)
				return []string{"Md$" + kk, "Mv$" + kk, "Ml$" + kk}
			}
		}
	}
	if i := strings.LastIndex(item, "."); i > 0 {
		t := c.evalType(item[:i], pkg)
		if t != nil {
			if item[i+1:] == "*" {
				var out []string
				if st, ok := t.Underlying().(*types.Struct); ok {
					for j := 0; j < st.NumFields(); j++ {
						out = append(out, c.fieldHeapName(t, st.Field(j).Name()))
					}
				}
				return out
			}
			return []string{c.fieldHeapName(t, item[i+1:])}
		}
	}
	c.warn = append(c.warn, "cannot resolve modifies item "+item)
	return nil
}

func pkgOfFn(fn *ssa.Function) *types.Package {
	o := fn
	if fn.Origin() != nil {
		o = fn.Origin()
	}
	for o.Parent() != nil {
		o = o.Parent()
	}
	if o.Pkg != nil {
		return o.Pkg.Pkg
	}
	if o.Object() != nil {
		return o.Object().Pkg()
	}
	return nil
}

func (c *Ctx) evalType(s string, pkg *types.Package) types.Type {
	s = strings.TrimSpace(s)
	if pkg == nil {
		return nil
	}
	tv, err := types.Eval(c.prog.Fset, pkg, token.NoPos, s)
	if err != nil && c.typePos.IsValid() {
		// names of the function's own scope (type parameters of generic code)
		if tv2, err2 := types.Eval(c.prog.Fset, pkg, c.typePos, s); err2 == nil {
			tv, err = tv2, nil
		}
	}
	if err != nil {
		// try with imports of the package: pkgname.T
		if i := strings.Index(s, "."); i > 0 {
			pfx, rest := s[:i], s[i+1:]
			star := ""
			for strings.HasPrefix(pfx, "*") || strings.HasPrefix(pfx, "[]") {
				if strings.HasPrefix(pfx, "*") {
					star += "*"
					pfx = pfx[1:]
				} else {
					star += "[]"
					pfx = pfx[2:]
				}
			}
			for _, imp := range pkg.Imports() {
				if imp.Name() == pfx {
					if o := imp.Scope().Lookup(rest); o != nil {
						t := o.Type()
						for i := len(star); i > 0; {
							if strings.HasSuffix(star[:i], "[]") {
								t = types.NewSlice(t)
								i -= 2
							} else {
								t = types.NewPointer(t)
								i--
							}
						}
						return t
					}
				}
			}
		}
		return nil
	}
	return tv.Type
}

// abstractCall: result unconstrained (well-typed), heap effect = computed mod-set.
func (f *frame) abstractCall(callee *ssa.Function, cc *ssa.CallCommon, pc *Term, st State, kind string) Val {
	c := f.c
	desc := ""
	ms := newModSet()
	if callee != nil {
		desc = fullName(callee)
		ms = c.modsOf(callee)
	} else {
		desc = callKey(cc)
		ms = c.modsOfDynamic(f.fn, cc)
	}
	c.note("abstract call: " + desc)
	if os.Getenv("GOVC_DEBUG_MODS") != "" {
		for _, h := range ms.list() {
			if strings.HasPrefix(h, "ghost$") {
				fmt.Fprintf(os.Stderr, "DEBUG-MODS %s: abstract call %s writes %s\n", funcKey(f.fn), desc, h)
			}
		}
	}
	kept := f.preservedHeaps(callee)
	privSnap := f.snapshotPrivate(st)
	if ms.all {
		c.havocAllExcept(st, kept)
	}
	keepGhosts := f.asyncBoundary(callee)
	for _, h := range ms.list() {
		if kept[h] {
			continue
		}
		if strings.HasPrefix(h, "ghost$") && keepGhosts[h[6:]] {
			continue
		}
		c.havocHeap(st, h)
	}
	f.keepPrivate(privSnap, st)
	c.bumpAlloc(st)
	rt := cc.Signature().Results()
	switch rt.Len() {
	case 0:
		return Val{}
	case 1:
		return f.freshVal("ret", rt.At(0).Type(), st)
	}
	return f.freshVal("ret", rt, st)
}

// ---------- builtins ----------

func (f *frame) builtin(b *ssa.Builtin, cc *ssa.CallCommon, pc *Term, st State, x *ssa.Call) Val {
	c := f.c
	var args []Val
	for _, a := range cc.Args {
		args = append(args, f.get(a))
	}
	intT := types.Typ[types.Int]
	switch b.Name() {
	case "len":
		a := args[0]
		switch t := a.Typ.Underlying().(type) {
		case *types.Slice:
			return Val{T: c.slLen(a.T), Typ: intT}
		case *types.Basic:
			return Val{T: c.strLen(a.T), Typ: intT}
		case *types.Map:
			_, _, _, _, _, l := c.mapHeaps(st, t)
			n := Select(l, a.T)
			c.addHyp(c.cmp(token.GEQ, n, c.idxConst(0), true))
			return Val{T: Ite(Eq(a.T, IntLit(0)), c.idxConst(0), n), Typ: intT}
		case *types.Array:
			return Val{T: c.idxConst(t.Len()), Typ: intT}
		case *types.Pointer:
			return Val{T: c.idxConst(t.Elem().Underlying().(*types.Array).Len()), Typ: intT}
		case *types.Chan:
			return f.chanLen(a, st)
		}
	case "cap":
		a := args[0]
		switch t := a.Typ.Underlying().(type) {
		case *types.Slice:
			return Val{T: c.slCap(a.T), Typ: intT}
		case *types.Array:
			return Val{T: c.idxConst(t.Len()), Typ: intT}
		case *types.Pointer:
			return Val{T: c.idxConst(t.Elem().Underlying().(*types.Array).Len()), Typ: intT}
		case *types.Chan:
			c.declFun("chan_cap", []*Sort{IntSort}, c.idxSort())
			return Val{T: App("chan_cap", c.idxSort(), a.T), Typ: intT}
		}
	case "append":
		return f.appendOp(args[0], args[1], pc, st, x)
	case "copy":
		return f.copyOp(args[0], args[1], pc, st)
	case "delete":
		f.mapDelete(st, args[0], f.term(args[1]))
		return Val{}
	case "clear":
		a := args[0]
		if mt, ok := a.Typ.Underlying().(*types.Map); ok {
			dn, _, ln, d, _, l := c.mapHeaps(st, mt)
			as := ArraySort(c.sortOf(mt.Key()), BoolSort)
			st[dn] = Store(d, a.T, mk(fmt.Sprintf("((as const %s) false)", as), as))
			st[ln] = Store(l, a.T, c.idxConst(0))
			return Val{}
		}
		if sl, ok := a.Typ.Underlying().(*types.Slice); ok {
			// zero the elements of the slice
			hn, h := c.elemHeap(st, sl.Elem())
			nh := c.fresh(hn, h.Sort)
			b, k := Var("b!q", IntSort), Var("k!q", c.idxSort())
			off := c.slOff(a.T)
			inr := And(Eq(b, c.slBase(a.T)), c.cmp(token.LEQ, off, k, true), c.cmp(token.LSS, k, c.arith(token.ADD, off, c.slLen(a.T), intT), true))
			c.addHyp(Forall([]*Term{b, k}, Eq(Select(Select(nh, b), k), Ite(inr, c.zero(sl.Elem()), Select(Select(h, b), k)))))
			st[hn] = nh
			return Val{}
		}
	case "min", "max":
		r := args[0]
		_, signed, _ := intInfo(r.Typ)
		for _, a := range args[1:] {
			op := token.LSS
			if b.Name() == "max" {
				op = token.GTR
			}
			r = Val{T: Ite(c.cmp(op, a.T, r.T, signed), a.T, r.T), Typ: r.Typ}
		}
		return r
	case "print", "println", "close", "recover":
		if b.Name() == "recover" {
			return Val{T: Var("iface_nil", c.ifaceSort()), Typ: types.NewInterfaceType(nil, nil)}
		}
		return Val{}
	case "ssa:wrapnilchk":
		return args[0]
	case "SliceData", "StringData":
		// unsafe.SliceData / unsafe.StringData: an opaque pointer to the first element
		if x != nil {
			return f.freshVal("unsafe_data", x.Type(), st)
		}
		return Val{}
	case "String":
		// unsafe.String(ptr, n): a string of length n over the pointed-to bytes (contents abstract)
		if x != nil && len(args) == 2 {
			r := f.freshVal("unsafe_string", x.Type(), st)
			n := c.idxOf(args[1].T, args[1].Typ)
			f.boundsCheck(pc, c.cmp(token.GEQ, n, c.idxConst(0), true), x, "unsafe-string-len")
			c.addHyp(Implies(pc, Eq(c.strLen(r.T), n)))
			c.note("unsafe.String: result has the given length; its bytes are not related to the source slice")
			return r
		}
	case "Slice":
		// unsafe.Slice(ptr, n): contents abstract
		if x != nil && len(args) == 2 {
			r := f.freshVal("unsafe_slice", x.Type(), st)
			n := c.idxOf(args[1].T, args[1].Typ)
			c.addHyp(Implies(pc, Eq(c.slLen(r.T), n)))
			return r
		}
	}
	f.warnf("builtin %s not modelled", b.Name())
	if x != nil {
		return f.freshVal("builtin", x.Type(), st)
	}
	return Val{}
}

func (f *frame) chanCap(a Val) *Term {
	f.c.declFun("chan_cap", []*Sort{IntSort}, f.c.idxSort())
	return App("chan_cap", f.c.idxSort(), a.T)
}

func (f *frame) chanLen(a Val, st State) Val {
	c := f.c
	h := c.heapVar(st, "Chan$len", ArraySort(RefSort, c.idxSort()))
	return Val{T: Select(h, a.T), Typ: types.Typ[types.Int]}
}

// constLen returns n if the slice term has a literal constant length.
func (c *Ctx) constLen(s *Term) (int64, bool) {
	if s.Op == "mk_slice" && len(s.Args) == 4 {
		l := s.Args[2]
		if c.mode == ModeInt {
			return intLitVal(l)
		}
		var v int64
		var w int
		if n, _ := fmt.Sscanf(l.Op, "(_ bv%d %d)", &v, &w); n == 2 {
			return v, true
		}
	}
	return 0, false
}

func (f *frame) appendOp(s, t Val, pc *Term, st State, x *ssa.Call) Val {
	c := f.c
	intT := types.Typ[types.Int]
	styp := s.Typ
	if x != nil {
		styp = x.Type()
	}
	sl, ok := styp.Underlying().(*types.Slice)
	if !ok {
		return f.freshVal("append", styp, st)
	}
	elem := sl.Elem()
	hn, h := c.elemHeap(st, elem)
	var tl *Term
	isStr := false
	if bs, ok := t.Typ.Underlying().(*types.Basic); ok && bs.Info()&types.IsString != 0 {
		isStr = true
		tl = c.strLen(t.T)
	} else {
		tl = c.slLen(t.T)
	}
	sLen, sCap, sOff, sBase := c.slLen(s.T), c.slCap(s.T), c.slOff(s.T), c.slBase(s.T)
	newLen := c.arith(token.ADD, sLen, tl, intT)
	if c.mode == ModeInt {
		c.addHyp(Implies(pc, c.typeRange(newLen, intT)))
	}
	inplace := c.cmp(token.LEQ, newLen, sCap, true)
	nref := c.newRef(st)
	ncap := c.fresh("append_cap", c.idxSort())
	c.addHyp(c.cmp(token.GEQ, ncap, newLen, true))
	rBase := Ite(inplace, sBase, nref)
	rOff := Ite(inplace, sOff, c.idxConst(0))
	rCap := Ite(inplace, sCap, ncap)
	res := c.mkSlice(rBase, rOff, newLen, rCap)
	// contents
	tElem := func(j *Term) *Term {
		if isStr {
			return c.strAt(t.T, j)
		}
		return Select(Select(h, c.slBase(t.T)), c.arith(token.ADD, c.slOff(t.T), j, intT))
	}
	if n, ok := c.constLen(t.T); ok && !isStr && n <= 8 {
		// in-place: write n elements after the old length; realloc: new array = copy of old prefix + elements
		inArr := Select(h, sBase)
		for j := int64(0); j < n; j++ {
			inArr = Store(inArr, c.arith(token.ADD, c.arith(token.ADD, sOff, sLen, intT), c.idxConst(j), intT), tElem(c.idxConst(j)))
		}
		newArr := c.fresh("append_arr", ArraySort(c.idxSort(), c.sortOf(elem)))
		k := Var("k!q", c.idxSort())
		c.addHyp(Forall([]*Term{k}, Implies(And(c.cmp(token.LEQ, c.idxConst(0), k, true), c.cmp(token.LSS, k, sLen, true)),
			Eq(Select(newArr, k), Select(Select(h, sBase), c.arith(token.ADD, sOff, k, intT))))))
		for j := int64(0); j < n; j++ {
			newArr = Store(newArr, c.arith(token.ADD, sLen, c.idxConst(j), intT), tElem(c.idxConst(j)))
		}
		st[hn] = Ite(inplace, Store(h, sBase, inArr), Store(h, nref, newArr))
		return Val{T: res, Typ: styp}
	}
	// general case: quantified description of the result array
	resArr := c.fresh("append_arr", ArraySort(c.idxSort(), c.sortOf(elem)))
	k := Var("k!q", c.idxSort())
	z := c.idxConst(0)
	// in terms of logical index i in [0,newLen): res[i] = i<sLen ? s[i] : t[i-sLen]
	logical := c.arith(token.SUB, k, rOff, intT)
	oldAt := Select(Select(h, sBase), c.arith(token.ADD, sOff, logical, intT))
	inOld := And(c.cmp(token.LEQ, z, logical, true), c.cmp(token.LSS, logical, sLen, true))
	inNew := And(c.cmp(token.LEQ, sLen, logical, true), c.cmp(token.LSS, logical, newLen, true))
	other := Ite(inplace, Select(Select(h, sBase), k), c.zero(elem))
	c.addHyp(Forall([]*Term{k}, Eq(Select(resArr, k), Ite(inOld, oldAt, Ite(inNew, tElem(c.arith(token.SUB, logical, sLen, intT)), other)))))
	st[hn] = Store(h, rBase, resArr)
	return Val{T: res, Typ: styp}
}

func (f *frame) copyOp(dst, src Val, pc *Term, st State) Val {
	c := f.c
	intT := types.Typ[types.Int]
	sl, ok := dst.Typ.Underlying().(*types.Slice)
	if !ok {
		return f.freshVal("copy", intT, st)
	}
	elem := sl.Elem()
	hn, h := c.elemHeap(st, elem)
	var srcLen *Term
	isStr := false
	if bs, ok := src.Typ.Underlying().(*types.Basic); ok && bs.Info()&types.IsString != 0 {
		isStr = true
		srcLen = c.strLen(src.T)
	} else {
		srcLen = c.slLen(src.T)
	}
	dl := c.slLen(dst.T)
	n := Ite(c.cmp(token.LSS, dl, srcLen, true), dl, srcLen)
	nv := c.fresh("copy_n", c.idxSort())
	c.addHyp(Eq(nv, n))
	nh := c.fresh(hn, h.Sort)
	b, k := Var("b!q", IntSort), Var("k!q", c.idxSort())
	dOff := c.slOff(dst.T)
	rel := c.arith(token.SUB, k, dOff, intT)
	inr := And(Eq(b, c.slBase(dst.T)), c.cmp(token.LEQ, c.idxConst(0), rel, true), c.cmp(token.LSS, rel, nv, true))
	var srcAt *Term
	if isStr {
		srcAt = c.strAt(src.T, rel)
	} else {
		srcAt = Select(Select(h, c.slBase(src.T)), c.arith(token.ADD, c.slOff(src.T), rel, intT))
	}
	c.addHyp(Forall([]*Term{b, k}, Eq(Select(Select(nh, b), k), Ite(inr, srcAt, Select(Select(h, b), k)))))
	st[hn] = nh
	return Val{T: nv, Typ: intT}
}

// ---------- intrinsics ----------

type intrinsic func(f *frame, cc *ssa.CallCommon, args []Val, pc *Term, st State, resType types.Type) (Val, bool)

var intrinsics = map[string]intrinsic{}

func noop(f *frame, cc *ssa.CallCommon, args []Val, pc *Term, st State, resType types.Type) (Val, bool) {
	return Val{}, true
}

func init() {
	for _, n := range []string{"(*Mutex).Lock", "(*Mutex).Unlock", "(*RWMutex).Lock", "(*RWMutex).Unlock", "(*RWMutex).RLock", "(*RWMutex).RUnlock"} {
		name := n
		intrinsics["sync::"+name] = func(f *frame, cc *ssa.CallCommon, args []Val, pc *Term, st State, resType types.Type) (Val, bool) {
			return f.lockOp(name, args, pc, st)
		}
	}
	for _, w := range []string{"Int32", "Int64", "Uint32", "Uint64", "Uintptr"} {
		w := w
		intrinsics["sync/atomic::Add"+w] = func(f *frame, cc *ssa.CallCommon, args []Val, pc *Term, st State, resType types.Type) (Val, bool) {
			cur := f.loadTyped(st, args[0])
			t := cur.Typ
			nv := f.c.arith(token.ADD, cur.T, args[1].T, t)
			if f.c.mode == ModeInt {
				// atomic adds wrap; in int mode we keep the value in range by wrapping
				nv = f.c.wrapInt(nv, t)
			}
			n := f.c.fresh("atomic_new", nv.Sort)
			f.c.addHyp(Eq(n, nv))
			f.store(st, args[0], n)
			return Val{T: n, Typ: t}, true
		}
		intrinsics["sync/atomic::Load"+w] = func(f *frame, cc *ssa.CallCommon, args []Val, pc *Term, st State, resType types.Type) (Val, bool) {
			return f.loadTyped(st, args[0]), true
		}
		intrinsics["sync/atomic::Store"+w] = func(f *frame, cc *ssa.CallCommon, args []Val, pc *Term, st State, resType types.Type) (Val, bool) {
			f.store(st, args[0], args[1].T)
			return Val{}, true
		}
		intrinsics["sync/atomic::Swap"+w] = func(f *frame, cc *ssa.CallCommon, args []Val, pc *Term, st State, resType types.Type) (Val, bool) {
			cur := f.loadTyped(st, args[0])
			f.store(st, args[0], args[1].T)
			return cur, true
		}
		intrinsics["sync/atomic::CompareAndSwap"+w] = func(f *frame, cc *ssa.CallCommon, args []Val, pc *Term, st State, resType types.Type) (Val, bool) {
			cur := f.loadTyped(st, args[0])
			ok := Eq(cur.T, args[1].T)
			okv := f.c.fresh("cas_ok", BoolSort)
			f.c.addHyp(Eq(okv, ok))
			f.store(st, args[0], Ite(okv, args[2].T, cur.T))
			return Val{T: okv, Typ: types.Typ[types.Bool]}, true
		}
		intrinsics["sync/atomic::And"+w] = nil
		delete(intrinsics, "sync/atomic::And"+w)
	}
	intrinsics["sync/atomic::LoadPointer"] = func(f *frame, cc *ssa.CallCommon, args []Val, pc *Term, st State, resType types.Type) (Val, bool) {
		return f.loadTyped(st, args[0]), true
	}
	intrinsics["sync/atomic::StorePointer"] = func(f *frame, cc *ssa.CallCommon, args []Val, pc *Term, st State, resType types.Type) (Val, bool) {
		f.store(st, args[0], f.term(args[1]))
		return Val{}, true
	}
	intrinsics["sync/atomic::CompareAndSwapPointer"] = func(f *frame, cc *ssa.CallCommon, args []Val, pc *Term, st State, resType types.Type) (Val, bool) {
		cur := f.loadTyped(st, args[0])
		okv := f.c.fresh("cas_ok", BoolSort)
		f.c.addHyp(Eq(okv, Eq(cur.T, f.term(args[1]))))
		f.store(st, args[0], Ite(okv, f.term(args[2]), cur.T))
		return Val{T: okv, Typ: types.Typ[types.Bool]}, true
	}
	intrinsics["sync/atomic::SwapPointer"] = func(f *frame, cc *ssa.CallCommon, args []Val, pc *Term, st State, resType types.Type) (Val, bool) {
		cur := f.loadTyped(st, args[0])
		f.store(st, args[0], f.term(args[1]))
		return cur, true
	}
}

func (c *Ctx) wrapInt(v *Term, t types.Type) *Term {
	w, signed, ok := intInfo(t)
	if !ok || c.mode == ModeBV {
		return v
	}
	m := new(big.Int).Lsh(big.NewInt(1), uint(w))
	u := mk("mod", IntSort, v, BigIntLit(m))
	if !signed {
		return u
	}
	half := new(big.Int).Lsh(big.NewInt(1), uint(w-1))
	return Ite(mk("<", BoolSort, u, BigIntLit(half)), u, mk("-", IntSort, u, BigIntLit(m)))
}

// lockOp: by default a no-op (sequential reading of a lock-protected function);
// monitor semantics are added by monitor.go when the receiver's struct has a
// declared monitor.
func (f *frame) lockOp(name string, args []Val, pc *Term, st State) (Val, bool) {
	if monitorHook != nil {
		monitorHook(f, name, args, pc, st)
	}
	return Val{}, true
}

var monitorHook func(f *frame, name string, args []Val, pc *Term, st State)
