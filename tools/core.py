#!/usr/bin/env python3
"""core.py file.smt2 : greedy minimisation of an unsat set of assertions (debugging aid)."""
import sys, subprocess
src = open(sys.argv[1]).read().split('\n')
solver = sys.argv[2] if len(sys.argv) > 2 else 'z3'
asserts = [i for i, l in enumerate(src) if l.startswith('(assert')]
keep = set(asserts)
def unsat(ks):
    body = '\n'.join(l for i, l in enumerate(src) if not l.startswith('(assert') or i in ks)
    body = body.replace('(get-value', '; (get-value')
    open('/tmp/core.smt2', 'w').write(body)
    cmd = ['cvc5', '--tlimit=8000', '/tmp/core.smt2'] if solver == 'cvc5' else [solver, '-T:8', '/tmp/core.smt2']
    out = subprocess.run(cmd, capture_output=True, text=True).stdout
    return out.strip().startswith('unsat')
if not unsat(keep):
    print("not unsat with", solver); sys.exit(1)
for i in asserts:
    if unsat(keep - {i}):
        keep.discard(i)
for i in sorted(keep):
    print(src[i][:600]); print()
