#!/usr/bin/env python3
"""confirm_seed2.py <prop-id> <variant> <src-dir>

Independently confirm a seeded property-breaking change and file it under
/verif/seeded/<id>-<variant>/ :
  1. the patch applies to /repo HEAD in a scratch worktree (removed afterwards) and the tree builds
  2. the demonstration test passes without the change and fails with it
  3. the existing tests of every touched package, run with the change, lose no test that is
     stable in the pinned baseline (/w/out/run{1,2,3}.json: passed in all three runs); a stable
     test that fails is re-run alone up to twice (the suite is timing sensitive under load).
"""
import json, os, re, subprocess, sys, shutil, glob

pid, var, src = sys.argv[1], sys.argv[2], sys.argv[3].rstrip('/')
env = dict(os.environ, GOFLAGS='-mod=mod', GOPROXY='off')
wt = f'/tmp/wtc/{pid}-{var}'
log = open(f'/tmp/wtc/{pid}-{var}.log', 'w') if os.path.isdir('/tmp/wtc') or not os.makedirs('/tmp/wtc') else None
MOD = 'github.com/tochemey/goakt/v4'

def sh(cmd, cwd=None, timeout=None):
    p = subprocess.run(cmd, shell=True, cwd=cwd, env=env, stdout=subprocess.PIPE, stderr=subprocess.STDOUT, text=True, timeout=timeout)
    log.write(f'$ {cmd}\n{p.stdout[-4000:]}\n'); log.flush()
    return p.returncode, p.stdout

def done(msg, code):
    print(f'CONFIRM {pid}-{var}: {msg}', flush=True)
    sh(f'git -C /repo worktree remove --force {wt}'); shutil.rmtree(wt, ignore_errors=True)
    sys.exit(code)

stable = None
for r in ('run1', 'run2', 'run3'):
    s = set(json.load(open(f'/w/out/{r}.json'))['passed'])
    stable = s if stable is None else stable & s

shutil.rmtree(wt, ignore_errors=True); sh('git -C /repo worktree prune')
if sh(f'git -C /repo worktree add --detach {wt} HEAD')[0] != 0:
    done('cannot create worktree', 2)
demos = sorted(glob.glob(src + '/zz_seed_*_test.go')) or sorted(glob.glob(src + '/*_test.go'))
if not demos: done('no demo test', 2)
demo = demos[0]
patch = open(src + '/patch.diff').read()
pkgs = sorted({os.path.dirname(m) for m in re.findall(r'^\+\+\+ b/(\S+)', patch, re.M)})
demopkg = None
m = re.search(r'^package (\w+)', open(demo).read(), re.M)
notes = open(src + '/notes.md').read() if os.path.exists(src + '/notes.md') else ''
for cand in re.findall(r'`([\w/.-]+)/?`', notes):
    cand = cand.rstrip('/')
    if os.path.isdir(f'{wt}/{cand}') and m and (os.path.basename(cand) == m.group(1).removesuffix('_test') or cand in pkgs):
        demopkg = cand; break
if demopkg is None:
    for p in pkgs:
        if m and os.path.basename(p) == m.group(1).removesuffix('_test'): demopkg = p
if demopkg is None: demopkg = pkgs[0]
tests = '|'.join(re.findall(r'^func (Test\w+)', open(demo).read(), re.M))
shutil.copy(demo, f'{wt}/{demopkg}/')
run = f"go test -vet=off -count=1 -timeout 20m -run '^({tests})$' ./{demopkg}/"
if sh(run, wt)[0] != 0: done('demo FAILS on unmodified code', 1)
if sh(f'git apply {src}/patch.diff', wt)[0] != 0: done('patch does not apply to current HEAD', 1)
if sh('go build ./...', wt)[0] != 0: done('does not build', 1)
if sh(run, wt)[0] == 0: done('demo PASSES with the change (not a break)', 1)
os.remove(f'{wt}/{demopkg}/{os.path.basename(demo)}')
lost = []
for p in pkgs:
    rc, out = sh(f'go test -json -vet=off -count=1 -timeout 40m ./{p}/', wt)
    failed = set()
    for line in out.splitlines():
        try: ev = json.loads(line)
        except Exception: continue
        if ev.get('Action') == 'fail' and ev.get('Test'):
            failed.add(f"{ev['Package']}::{ev['Test']}")
    bad = sorted(t for t in failed if t in stable)
    tops = sorted({t.split('::')[1].split('/')[0] for t in bad})
    for top in tops:
        ok = False
        for _ in range(2):
            if sh(f"go test -vet=off -count=1 -timeout 15m -run '^{top}$' ./{p}/", wt)[0] == 0: ok = True; break
        if not ok: lost.append(f'{p}::{top}')
    log.write(f'package {p}: {len(failed)} failed, {len(bad)} stable ones failed, retried {tops}\n')
if lost: done('existing stable tests FAIL with the change: ' + ', '.join(lost), 1)
dst = f'/verif/seeded/{pid}-{var}'; os.makedirs(dst, exist_ok=True)
shutil.copy(src + '/patch.diff', dst + '/patch.diff'); shutil.copy(demo, dst + '/')
if notes: open(dst + '/notes.md', 'w').write(notes)
subprocess.run(['python3', '/verif/tools/mkmeta.py', pid, var, dst, demopkg, tests, ' '.join(pkgs)])
done(f'confirmed -> {dst}', 0)
