#!/usr/bin/env python3
"""Regenerates /verif/MANIFEST.json from tools/claims.json (single source of truth)."""
import json, os, subprocess

HERE = os.path.dirname(os.path.dirname(os.path.abspath(__file__)))
TECH = "contract-based deductive verification: weakest-precondition VCs over go/ssa of the real functions, contracts in build-tag-guarded comment files, discharged by z3/cvc5"

def main():
    data = json.load(open(os.path.join(HERE, "tools", "claims.json")))
    CLAIMED, NA = data["claimed"], data["na"]
    ids = [json.loads(l)["id"] for l in open(os.path.join(HERE, "properties.jsonl"))]
    checks = []
    for pid in ids:
        if pid in CLAIMED:
            c = CLAIMED[pid]
            checks.append({
                "property_id": pid,
                "quick_cmd": "./bin/check %s quick" % pid,
                "thorough_cmd": "./bin/check %s thorough" % pid,
                "evidence_file": "/verif/evidence/%s.json" % pid,
                "replay_cmd_template": "cat {path}/REPORT.txt",
                "engine": "govc",
                "level_claimed": {"category": "proof", "text": c["text"], "design_ref": "DESIGN.md " + c["ref"]},
                "level_note": c["note"] + " Global trusted base: go/ssa + go/types agree with the compiler; govc's SSA->SMT translation (checked by the must-fail selftest corpus); z3/cvc5 unsat answers; listed per run in evidence.assumptions.",
                "technique": TECH,
            })
    na = []
    for pid in ids:
        if pid in CLAIMED:
            continue
        na.append({"property_id": pid, "reason": NA.get(pid, "within reach of the technique per DESIGN.md §5 but no contract set has been built and made to discharge robustly in the time available; not claimed")})
    hooks = subprocess.run(["git", "-C", "/repo", "log", "--format=%H %s"], capture_output=True, text=True).stdout.strip().split("\n")
    hook_commits = [l.split()[0] for l in hooks if " verif:" in " " + l]
    man = {
        "version": 1,
        "setup_cmd": "cd /verif/govc && GOFLAGS=-mod=mod GOPROXY=off go build -o /verif/bin/govc .",
        "hooks": {
            "guard": "verif",
            "enable": "go build -tags verif (the guarded files are comment-only contract files <pkg>/zz_verif_contracts.go; govc loads the packages with -tags=verif)",
            "baseline_off_cmd": "cd /repo && GOFLAGS=-mod=mod GOPROXY=off go test -json -vet=off -count=1 -timeout 25m ./...",
            "source_commits": hook_commits,
            "add_only": True,
        },
        "engines": [{"name": "govc", "path": "/verif/govc", "serves_properties": sorted(CLAIMED), "kind_free_text": "VC generator over go/ssa (x/tools v0.50.0) + contract language in comment files + z3 4.8.12 / z3 5.1.0 / cvc5 1.0.3 raced per obligation"}],
        "checks": checks,
        "not_applicable": na,
        "notes": "See DESIGN.md. Exit codes: 0 held, 1 VIOLATION line printed, 2 the check itself is broken (vacuity guard / spec error / tree does not build).",
    }
    json.dump(man, open(os.path.join(HERE, "MANIFEST.json"), "w"), indent=1)
    print("MANIFEST.json: %d checks, %d not applicable" % (len(checks), len(na)))

if __name__ == "__main__":
    main()
