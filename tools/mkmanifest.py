#!/usr/bin/env python3
"""Regenerates /verif/MANIFEST.json from the tables below (single source of truth)."""
import json, os, subprocess

HERE = os.path.dirname(os.path.dirname(os.path.abspath(__file__)))

TECH = "contract-based deductive verification: weakest-precondition VCs over go/ssa of the real functions, contracts in build-tag-guarded comment files, discharged by z3/cvc5"

# id -> (level text, level_note, design_ref)
CLAIMED = {
 "C08": ("backoffDelay is proved equal to min(initial*2^(n-1), max) (spec in 128-bit arithmetic) for all 2^192 inputs in exact 64-bit bit-vector semantics; monotonicity and range are lemmas over the spec function; recordFault's reset/increment rule is proved over the real atomics code.",
         "Assumes WithExponentialBackoff's normalisation initial<=max (precondition). time.Now() unconstrained. Sequential reading of recordFault (it runs on the parent's turn).", "§5 C08"),
 "C22": ("RoundRobin.Next: no panic, returns a configured node, advances cyclically - proved in exact uint32/int64 bit-vector semantics for every counter value (including the wrap) and every pool size 1..2^32.",
         "Requires a non-empty pool (a caller obligation). Lock operations are no-ops (sequential reading of a lock-protected method).", "§5 C22"),
 "C21": ("Round-robin routing: for every cursor value and pool size 1..2^32 the routed message goes to routees[cursor mod n], exactly one Tell is issued, no index panic, and the cursor advances cyclically (so the k-th message goes to routee (k-1) mod n, also across what used to be the uint32 wrap). Structural obligation: the cursor has a single writer.",
         "Fan-out ('every routee exactly once') and consistent-hash clauses are NOT covered by this check: fan-out Tells are issued from spawned goroutines (delivery is C02's business), the hash-ring lemma is not built. ctx.Tell is an assumed frame (it does not write router fields), backed by the single-writer structural obligation. rand.IntN assumed in [0,n).", "§5 C21"),
 "C48": ("TTLMap: representation invariant (every mapped key points at a slot of the live region holding that key) preserved by Set/Get/Delete/Reset/ActiveLen/evict; Get finds a key iff it is mapped and not expired and returns the stored value, drops it otherwise; Set stores (v, now+ttl), keeps every other entry or drops it only if expired, never revives; evict never drops a live entry (loop invariants over the index map, generic K/V as uninterpreted sorts).",
         "maybeCompact's contract (abstract map preserved) is ASSUMED, not yet verified (compaction loops + pigeonhole step) - listed in evidence.assumptions. History statement follows by induction over operations (meta-argument). now+ttl assumed not to overflow. Lock operations are no-ops (sequential reading).", "§5 C48"),
 "C47": ("Bucket window: representation invariant preserved, no index/div panic for any clock value (also backwards), advance clears exactly the buckets it passes (ring-indexed quantified invariant), hard reset, add increments exactly one counter and returns the window totals (recursive sum spec). State machine: record opens exactly when total>=minRequests and float64(fail)/float64(total)>=failureRate (IEEE semantics), closes exactly when probing succeeded; transitionTo arms openUntil only on a real transition to Open; tryAcquire rejects while open until the timeout and admits a probe only by taking a free semaphore slot (<= halfOpenMaxCalls).",
         "Sequential reading of lock-protected methods (Lock/Unlock are no-ops; the representation invariant is a pre/postcondition of every method). Races between concurrent record() calls are not covered. Channel modelled as a counter. time.Time observed through UnixNano only (assumed contracts in contracts/stdlib.spec). uint64 additions assumed not to overflow.", "§5 C47"),
}

NA = {
 "C03": "per-sender order is decided inside lock-free MPSC/ring/segment queues under producer interleavings; no SMT-dischargeable function contract expresses their linearisation order",
 "C04": "the property is linearizability of CAS/Swap pointer structures with pooled nodes; needs a concurrent separation logic, unavailable for Go and not reproducible by a WP generator",
 "C06": "temporal ordering of PreStart/Receive/PostStop across goroutines, locks, flag words and user hooks for every stop path; not a function-level pre/postcondition",
 "C09": "post-state over an errgroup fan-out, per-actor stop locks and an asynchronous death-watch actor under concurrent stops/spawns",
 "C10": "'exactly one Terminated' is a linearisation question between watcher snapshots, Tell and UnWatch on different goroutines",
 "C11": "decided by a channel/sync.Map single-flight under concurrent callers; not a small closed set of atomic cells amenable to thread-modular contracts",
 "C12": "wall-clock timing between a timer goroutine and message arrival ('within the last T up to 100ms slack')",
 "C15": "reply/channel identity across sync.Pool reuse with timeouts: interleaving of channel operations, not expressible as a function contract",
 "C17": "system-wide shutdown choreography across guardians, grains, dispatcher and remoting",
 "C18": "'exactly once' per message across four asynchronous drop paths ending in an actor Tell and a counter read by Ask",
 "C19": "timing/cancellation is go-quartz's, the cluster tick claim is olric's put-if-absent across nodes; goakt code is an adapter whose contract would assume the property",
 "C20": "delivery goes through a Michael-Scott queue with pooled nodes (same reason as C04)",
 "C24": "transparency is a property of the klauspost/brotli streaming codecs; the goakt wrappers only forward",
 "C25": "round-trip is a property of protobuf-go / cbor / sonic (reflection, JIT assembly); the dispatch loop does not decide it",
 "C27": "order and no-silent-drop come from a writer goroutine, channels and failure callbacks under transport faults",
 "C28": "request/response pairing comes from exclusive use of pooled connections across goroutines and the network",
 "C29": "attachment of metadata to its own message across concurrent batching (byte layout part belongs to C23)",
 "C30": "interleavings of registry operations by several nodes with crash points; the registry is olric",
 "C31": "C06 for grains: temporal ordering across goroutines",
 "C36": "cluster-wide at-most-one under leadership changes: memberlist/olric behaviour",
}

# planned in DESIGN.md but no check registered (yet): listed so that every unclaimed property has a reason
PENDING = {}

def main():
    props = [json.loads(l) for l in open(os.path.join(HERE, "properties.jsonl"))]
    ids = [p["id"] for p in props]
    checks = []
    for pid in ids:
        if pid in CLAIMED:
            text, note, ref = CLAIMED[pid]
            checks.append({
                "property_id": pid,
                "quick_cmd": "./bin/check %s quick" % pid,
                "thorough_cmd": "./bin/check %s thorough" % pid,
                "evidence_file": "/verif/evidence/%s.json" % pid,
                "replay_cmd_template": "cat {path}/REPORT.txt",
                "engine": "govc",
                "level_claimed": {"category": "proof", "text": text, "design_ref": "DESIGN.md " + ref},
                "level_note": note + " Global trusted base: go/ssa + go/types agree with the compiler; govc's SSA->SMT translation (checked by the must-fail selftest corpus); z3/cvc5 unsat answers; listed per run in evidence.assumptions.",
                "technique": TECH,
            })
    na = []
    for pid in ids:
        if pid in CLAIMED:
            continue
        if pid in NA:
            na.append({"property_id": pid, "reason": NA[pid]})
        else:
            na.append({"property_id": pid, "reason": PENDING.get(pid, "within reach of the technique per DESIGN.md §5 but no contract set has been built and made to discharge robustly in the time available; not claimed")})
    hooks = subprocess.run(["git", "-C", "/repo", "log", "--format=%H %s"], capture_output=True, text=True).stdout.strip().split("\n")
    hook_commits = [l.split()[0] for l in hooks if " verif:" in " " + l]
    man = {
        "version": 1,
        "setup_cmd": "cd /verif/govc && GOFLAGS=-mod=mod GOPROXY=off go build -o /verif/bin/govc .",
        "hooks": {
            "guard": "verif",
            "enable": "go build -tags verif (the guarded files are comment-only contract files <pkg>/zz_verif_contracts.go; govc loads the packages with -tags=verif)",
            "baseline_off_cmd": "cd /repo && GOFLAGS=-mod=mod GOPROXY=off go test -json -vet=off -count=1 -timeout 25m ./...",
            "source_commits": hook_commits,
            "add_only": True,
        },
        "engines": [{"name": "govc", "path": "/verif/govc", "serves_properties": sorted(CLAIMED), "kind_free_text": "VC generator over go/ssa (x/tools v0.50.0) + contract language in comment files + z3 4.8.12 / z3 5.1.0 / cvc5 1.0.3 raced per obligation"}],
        "checks": checks,
        "not_applicable": na,
        "notes": "See DESIGN.md. Exit codes: 0 held, 1 VIOLATION line printed, 2 the check itself is broken (vacuity guard / spec error / tree does not build).",
    }
    json.dump(man, open(os.path.join(HERE, "MANIFEST.json"), "w"), indent=1)
    print("MANIFEST.json: %d checks, %d not applicable" % (len(checks), len(na)))

if __name__ == "__main__":
    main()
