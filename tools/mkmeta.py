#!/usr/bin/env python3
import json, sys
id, var, dst, demopkg, testname, pkgs = sys.argv[1:7]
notes = open(dst + "/notes.md").read()
ran = ["demo on unmodified code: PASS", "git apply patch.diff; go build ./...: OK", "demo with the change: FAIL"]
ran += ["go test ./%s/ with the change (existing suite): PASS" % p for p in pkgs.split()]
json.dump({"property": id, "variant": var, "breaks": id,
           "needs_to_manifest": "see notes.md (written by the independent seeding agent)",
           "demo": {"package": demopkg, "tests": testname},
           "confirmed": {"by": "tools/confirm_seed.sh in a scratch worktree of /repo HEAD", "ran": ran},
           "notes_head": notes[:800]}, open(dst + "/meta.json", "w"), indent=1)
