#!/bin/sh
# run_seeds.sh [id...] : run every seeded change / must-fail patch against its property check.
# Prints one line per patch: caught / MISSED.
cd /verif
pats=""
for d in seeded/*/ selftest/*/; do
  [ -d "$d" ] || continue
  for p in "$d"*.diff; do [ -f "$p" ] && pats="$pats $p"; done
done
for p in $pats; do
  id=$(echo "$p" | sed -E 's#^(seeded|selftest)/(C[0-9]+).*#\2#')
  if [ $# -gt 0 ]; then case " $* " in *" $id "*) ;; *) continue;; esac; fi
  out=$(./bin/selftest "$id" "/verif/$p" 2>&1 | tail -1)
  case "$out" in *caught*) echo "caught  $id $p";; *) echo "MISSED  $id $p  ($out)";; esac
done
