#!/bin/sh
# confirm_seed.sh <prop-id> <variant A|B> <src-dir> : independently confirm a seeded change
#   (patch applies to the current /repo HEAD, tree builds, demo fails with it and passes
#   without it, existing tests of the touched packages still pass), then file it under
#   /verif/seeded/<id>-<variant>/ with a meta.json. Uses a scratch worktree that is removed.
set -u
id="$1"; var="$2"; src="$3"
export GOFLAGS=-mod=mod GOPROXY=off
wt="/tmp/wtc/$id-$var"
rm -rf "$wt"; git -C /repo worktree prune
git -C /repo worktree add --detach "$wt" HEAD >/dev/null 2>&1 || { echo "CONFIRM $id-$var: cannot create worktree"; exit 2; }
cleanup() { git -C /repo worktree remove --force "$wt" >/dev/null 2>&1; rm -rf "$wt"; }
trap cleanup EXIT
cd "$wt"
demo=$(ls "$src"/zz_seed_*_test.go 2>/dev/null | head -1)
[ -n "$demo" ] || { echo "CONFIRM $id-$var: no demo test"; exit 2; }
pkgs=$(grep '^+++ b/' "$src/patch.diff" | sed 's|^+++ b/||' | xargs -n1 dirname | sort -u)
demopkg=$(grep -o '`[^`]*` belongs in `[^`]*`\|belongs in `[^`]*`' "$src/notes.md" | grep -o 'in `[^`]*`' | head -1 | tr -d '`' | sed 's/^in //; s|/$||')
[ -n "$demopkg" ] || demopkg=$(echo "$pkgs" | head -1)
testname=$(grep -o 'func Test[A-Za-z0-9_]*' "$demo" | sed 's/func //' | paste -sd'|')
log="/tmp/wtc/$id-$var.log"; : > "$log"
cp "$demo" "$demopkg/"
# 1. demo passes without the change
if ! go test -vet=off -count=1 -timeout 20m -run "^($testname)\$" "./$demopkg/" >>"$log" 2>&1; then echo "CONFIRM $id-$var: demo FAILS on unmodified code"; exit 1; fi
# 2. apply
if ! git apply "$src/patch.diff" >>"$log" 2>&1; then echo "CONFIRM $id-$var: patch does not apply to current HEAD"; exit 1; fi
if ! go build ./... >>"$log" 2>&1; then echo "CONFIRM $id-$var: does not build"; exit 1; fi
# 3. demo fails with the change
if go test -vet=off -count=1 -timeout 20m -run "^($testname)\$" "./$demopkg/" >>"$log" 2>&1; then echo "CONFIRM $id-$var: demo PASSES with the change (not a break)"; exit 1; fi
# 4. existing tests of touched packages pass with the change (demo removed)
rm -f "$demopkg/$(basename "$demo")"
ok=1
for p in $pkgs; do
  if ! go test -vet=off -count=1 -timeout 25m "./$p/" >>"$log" 2>&1; then
    # one retry: the suite has timing-sensitive tests
    if ! go test -vet=off -count=1 -timeout 25m "./$p/" >>"$log" 2>&1; then ok=0; echo "CONFIRM $id-$var: existing tests of $p FAIL with the change"; fi
  fi
done
[ $ok = 1 ] || exit 1
dst="/verif/seeded/$id-$var"; mkdir -p "$dst"
cp "$src/patch.diff" "$dst/patch.diff"; cp "$demo" "$dst/"; cp "$src/notes.md" "$dst/notes.md"
python3 /verif/tools/mkmeta.py "$id" "$var" "$dst" "$demopkg" "$testname" "$pkgs"
echo "CONFIRM $id-$var: confirmed -> $dst"
